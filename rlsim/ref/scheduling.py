"""Reference models for the scheduling environments (FJSP, JSSP, FFSP, SMTWTP).

Pure Python, one instance at a time, written from the problem definitions; shares no code with rl4co
and never touches a batch.  Every model offers the interface of rlsim.ref.routing:

    admissible()  -> {action: "must" | "may"}   (absent = must_not; self.why[action] names the constraint)
    pruned(a)     -> True when a is feasible by the problem but belongs to the documented pruning
    apply(a), done() -> "must" | "not", step_bound(), time
    objective(actions) -> float   reward recomputed from the ORIGINAL instance and the action list alone
    violations(actions) -> [(constraint, detail)]   verdict on a complete action list (re-simulation)

and a validator of the *environment's* final schedule tensors (`validate(...)`), which looks only at the
original instance and at the numbers handed in.

Action encodings (the environments'):
    FJSP    0 = wait, 1 + job * num_machines + machine = next operation of `job` on `machine`
    JSSP    0 = wait, 1 + job (the machine is the operation's only eligible machine)
    FFSP    job index 0..J-1 = start that job on the current (time, machine) slot, J = wait
    SMTWTP  job index 1..n (0 = dummy start node)

Time advance (FJSP/JSSP), stated on the problem: a dispatch starts the operation at the current clock;
a wait moves the clock to the next machine release; whenever a decision point offers no action at all
and the instance is not finished, the clock moves on to the next machine release by itself.  A job
becomes available again when the clock has reached the finish time of its running operation.
"""
from __future__ import annotations

import copy
import math

INF = float("inf")
FFSP_UNSCHEDULED = -999999


def L(x):
    return x.tolist() if hasattr(x, "tolist") else x


class RefError(Exception):
    """The action list cannot be simulated at all (e.g. a wait with nothing running)."""


class SchedRef:
    name = "?"

    def __init__(self):
        self.why = {}
        self.t = 0  # number of applied actions

    def clone(self):
        return copy.deepcopy(self)

    def pruned(self, a) -> bool:
        return False

    def classify(self, a):
        adm = self.admissible()
        return adm.get(a, "not"), self.why.get(a, "")

    def _adm(self):
        self.why = {}
        return {}

    def _fresh(self):
        raise NotImplementedError

    def replay(self, actions):
        """Fresh copy of the model driven through `actions` (padding after the end is ignored).
        Returns (model, problems) where problems lists inadmissible actions met on the way."""
        m = self._fresh()
        problems = []
        for k, a in enumerate(actions):
            a = int(a)
            if m.done() == "must":
                break
            adm = m.admissible()
            if a not in adm:
                problems.append(("inadmissible_action", {"pos": k, "action": a, "why": m.why.get(a, "")}))
                if not m.can_simulate(a):
                    problems.append(("unsimulable_action", {"pos": k, "action": a}))
                    return m, problems
            m.apply(a)
        return m, problems

    def can_simulate(self, a) -> bool:
        return True


# ====================================================================================================
# FJSP / JSSP
# ====================================================================================================
class FJSPRef(SchedRef):
    """Event-driven dispatcher for the flexible job shop.

    inst: start_op_per_job[J], end_op_per_job[J], proc_times[M][O] (0 = machine not eligible),
    pad_mask[O] (True = padding).  cfg["kw"]["mask_no_ops"] (default True, the environment's default):
    the documented pruning "no wait while the instance is unfinished"."""

    name = "fjsp"
    flexible = True

    def __init__(self, inst, cfg=None):
        super().__init__()
        self._inst = {
            "start_op_per_job": [int(x) for x in L(inst["start_op_per_job"])],
            "end_op_per_job": [int(x) for x in L(inst["end_op_per_job"])],
            "proc_times": [[float(v) for v in r] for r in L(inst["proc_times"])],
            "pad_mask": [bool(v) for v in L(inst["pad_mask"])],
        }
        self._cfg = copy.deepcopy(cfg) if cfg is not None else {}
        self.p = self._inst["proc_times"]
        self.pad = self._inst["pad_mask"]
        self.M = len(self.p)
        self.O = len(self.pad)
        self.jobs = [list(range(s, e + 1)) for s, e in
                     zip(self._inst["start_op_per_job"], self._inst["end_op_per_job"])]
        self.J = len(self.jobs)
        self.mask_no_ops = bool(self._cfg.get("kw", {}).get("mask_no_ops", True))
        # dynamic state
        self.clock = 0.0
        self.busy_until = [0.0] * self.M
        self.nxt = [0] * self.J            # position of the job's current operation inside the job
        self.running = [None] * self.J     # finish time of the operation in process, or None
        self.job_done = [len(ops) == 0 for ops in self.jobs]
        self.sched = {}                    # op -> (machine, start, finish)
        self.dispatches = []               # (op, machine, start, finish) in dispatch order
        self.advances = 0                  # clock moves made so far (waits + automatic)

    # -- static description -------------------------------------------------------------------------
    def _fresh(self):
        return type(self)(self._inst, self._cfg)

    def real_ops(self):
        return [o for o in range(self.O) if not self.pad[o]]

    def wellformed(self):
        """Documented-format invariants of an instance (DESIGN 2.3): jobs tile the real operations,
        every real operation has an eligible machine (JSSP: exactly one)."""
        out = []
        covered = [o for ops in self.jobs for o in ops]
        if covered != self.real_ops():
            out.append(("jobs_do_not_tile_real_ops", {"covered": covered, "real": self.real_ops()}))
        for o in self.real_ops():
            k = sum(1 for m in range(self.M) if self.p[m][o] > 0)
            if k == 0 or (not self.flexible and k != 1):
                out.append(("eligible_machines", {"op": o, "count": k}))
        return out

    def eligible(self, o):
        return [m for m in range(self.M) if self.p[m][o] > 0]

    # -- encoding ------------------------------------------------------------------------------------
    def encode(self, j, m):
        return 1 + j * self.M + m

    def decode(self, a):
        a = int(a) - 1
        return a // self.M, a % self.M

    def n_actions(self):
        return 1 + self.J * self.M

    # -- state queries -------------------------------------------------------------------------------
    @property
    def time(self):
        return self.clock

    def _all_done(self):
        return all(self.job_done)

    def done(self):
        return "must" if self._all_done() else "not"

    def current_op(self, j):
        return self.jobs[j][self.nxt[j]]

    def _pair_state(self, j, m):
        """None when (job j, machine m) can be dispatched now, else the broken constraint."""
        if self.job_done[j]:
            return "job_done"
        if self.running[j] is not None:
            return "job_in_process"
        if self.busy_until[m] > self.clock:
            return "machine_busy"
        if not self.p[m][self.current_op(j)] > 0:
            return "machine_not_eligible"
        return None

    def dispatchable(self):
        return [(j, m) for j in range(self.J) for m in range(self.M) if self._pair_state(j, m) is None]

    def next_release(self):
        fut = [b for b in self.busy_until if b > self.clock]
        return min(fut) if fut else None

    def _wait_feasible(self):
        # by the problem a wait is meaningful exactly when some machine is still to be released
        return (not self._all_done()) and self.next_release() is not None

    def admissible(self):
        adm = self._adm()
        if self._all_done():
            adm[0] = "must"  # padding of a finished instance
            for j in range(self.J):
                for a in self._job_actions(j):
                    self.why[a] = "job_done"
            return adm
        self._fill_dispatch(adm)
        if self._wait_feasible():
            if self.mask_no_ops:
                self.why[0] = "pruned:mask_no_ops"
            else:
                adm[0] = "must"
        else:
            self.why[0] = "nothing_running"
        return adm

    def _job_actions(self, j):
        return [self.encode(j, m) for m in range(self.M)]

    def _fill_dispatch(self, adm):
        for j in range(self.J):
            for m in range(self.M):
                w = self._pair_state(j, m)
                if w is None:
                    adm[self.encode(j, m)] = "must"
                else:
                    self.why[self.encode(j, m)] = w

    def pruned(self, a):
        return int(a) == 0 and self.mask_no_ops and self._wait_feasible()

    def can_simulate(self, a):
        if int(a) == 0:
            return self._wait_feasible()
        j, m = self._decode_checked(a)
        return j is not None and not self.job_done[j]

    def _decode_checked(self, a):
        j, m = self.decode(a)
        if not (0 <= j < self.J and 0 <= m < self.M):
            return None, None
        return j, m

    # -- transitions ---------------------------------------------------------------------------------
    def _advance(self):
        nr = self.next_release()
        if nr is None:
            raise RefError("clock cannot advance: no machine will be released")
        self.clock = nr
        self.advances += 1
        for j in range(self.J):
            f = self.running[j]
            if f is not None and f <= self.clock:
                self.running[j] = None
                self.nxt[j] += 1
                if self.nxt[j] >= len(self.jobs[j]):
                    self.nxt[j] = len(self.jobs[j]) - 1
                    self.job_done[j] = True

    def _dispatch(self, j, m):
        o = self.current_op(j)
        dur = self.p[m][o]
        start, finish = self.clock, self.clock + dur
        self.busy_until[m] = finish
        self.running[j] = finish
        self.sched[o] = (m, start, finish)
        self.dispatches.append((o, m, start, finish))

    def _settle(self):
        """A decision point without any action (and an unfinished instance) is skipped."""
        guard = 0
        while not self._all_done() and not self.admissible():
            self._advance()
            guard += 1
            if guard > 4 * self.O + 8:
                raise RefError("settle loop does not terminate")

    def apply(self, a):
        a = int(a)
        self.t += 1
        if self._all_done():
            return  # padding: nothing changes
        if a == 0:
            self._advance()
        else:
            j, m = self._decode_checked(a)
            if j is None:
                raise RefError(f"action {a} out of range")
            self._dispatch(j, m)
        self._settle()

    def step_bound(self):
        # one step per operation plus at most one clock move per distinct release point
        return 2 * len(self.real_ops())

    # -- verdicts ------------------------------------------------------------------------------------
    def makespan(self):
        return max((f for (_, _, f) in self.sched.values()), default=0.0)

    def objective(self, actions):
        m, _ = self.replay(actions)
        return -m.makespan()

    def violations(self, actions):
        m, problems = self.replay(actions)
        out = list(problems)
        if not m._all_done():
            out.append(("unfinished", {"job_done": m.job_done}))
        return out

    def validate(self, start_times, finish_times, ma_assignment, reward=None, pad_init=None):
        """Verdict on an environment's final schedule against the ORIGINAL instance.

        start_times[O], finish_times[O], ma_assignment[M][O] (1 = op processed on machine), reward.
        pad_init = (start0[O], finish0[O]) values the padded operations had at reset."""
        S, F, A = L(start_times), L(finish_times), L(ma_assignment)
        out = []
        real = self.real_ops()
        on = {}
        for o in real:
            ms = [m for m in range(self.M) if A[m][o] != 0]
            if len(ms) != 1 or A[ms[0]][o] != 1:
                out.append(("exactly_once", {"op": o, "machines": ms,
                                             "entries": [A[m][o] for m in range(self.M)]}))
                continue
            m = ms[0]
            on[o] = m
            if not self.p[m][o] > 0:
                out.append(("eligible_machine", {"op": o, "machine": m, "eligible": self.eligible(o)}))
            if not (S[o] >= 0):
                out.append(("negative_start", {"op": o, "start": S[o]}))
            if F[o] - S[o] != self.p[m][o]:
                out.append(("duration", {"op": o, "machine": m, "start": S[o], "finish": F[o],
                                         "proc_time": self.p[m][o]}))
        for j, ops in enumerate(self.jobs):
            for a, b in zip(ops, ops[1:]):
                if a in on and b in on and S[b] < F[a]:
                    out.append(("job_order", {"job": j, "op": a, "next_op": b, "finish": F[a],
                                              "next_start": S[b]}))
        for m in range(self.M):
            ops = sorted((o for o in on if on[o] == m), key=lambda o: (S[o], F[o], o))
            for a, b in zip(ops, ops[1:]):
                if S[b] < F[a]:
                    out.append(("machine_overlap", {"machine": m, "op": a, "other": b,
                                                    "a": [S[a], F[a]], "b": [S[b], F[b]]}))
        for o in range(self.O):
            if not self.pad[o]:
                continue
            touched = [m for m in range(self.M) if A[m][o] != 0]
            if touched:
                out.append(("padded_op_assigned", {"op": o, "machines": touched}))
            if pad_init is not None:
                s0, f0 = L(pad_init[0]), L(pad_init[1])
                if S[o] != s0[o] or F[o] != f0[o]:
                    out.append(("padded_op_touched", {"op": o, "start": S[o], "finish": F[o],
                                                      "start0": s0[o], "finish0": f0[o]}))
        if reward is not None and real:
            mk = max(F[o] for o in real)
            if float(reward) != -mk:
                out.append(("makespan", {"reward": float(reward), "latest_completion": mk}))
        return out

    def compare_schedule(self, start_times, finish_times, ma_assignment):
        """The environment's schedule against the dispatcher's own ledger of the same actions."""
        S, F, A = L(start_times), L(finish_times), L(ma_assignment)
        out = []
        for o in self.real_ops():
            if o not in self.sched:
                continue
            m, s, f = self.sched[o]
            got_m = [k for k in range(self.M) if A[k][o] != 0]
            if got_m != [m] or S[o] != s or F[o] != f:
                out.append(("ledger", {"op": o, "expected": [m, s, f], "got": [got_m, S[o], F[o]]}))
        return out


class JSSPRef(FJSPRef):
    """Job shop: every operation has exactly one eligible machine; action = 1 + job."""

    name = "jssp"
    flexible = False

    def encode(self, j, m=None):
        return 1 + j

    def decode(self, a):
        j = int(a) - 1
        if not (0 <= j < self.J):
            return j, -1
        if self.job_done[j]:
            return j, 0
        el = self.eligible(self.current_op(j))
        return j, (el[0] if el else -1)

    def _decode_checked(self, a):
        j, m = self.decode(a)
        if not (0 <= j < self.J) or m < 0:
            return None, None
        return j, m

    def n_actions(self):
        return 1 + self.J

    def _job_actions(self, j):
        return [1 + j]

    def _fill_dispatch(self, adm):
        for j in range(self.J):
            reasons = [self._pair_state(j, m) for m in range(self.M)]
            if any(r is None for r in reasons):
                adm[1 + j] = "must"
            else:
                # the most specific reason: that of the eligible machine when there is one
                spec = [r for r in reasons if r != "machine_not_eligible"]
                self.why[1 + j] = spec[0] if spec else "machine_not_eligible"


# ====================================================================================================
# FFSP
# ====================================================================================================
class FFSPRef(SchedRef):
    """Flexible flow shop with S stages of M machines each, discrete time.

    The environment visits slots (t, k), k = 0..S*M-1 in stage-major order, and at a slot either starts
    a ready job of stage k // M on machine `machine(k)` or waits.  Slots whose machine is busy or whose
    stage has no ready job are skipped.  inst: run_time[J][S*M]; cfg["gen"]: num_stage, num_machine;
    cfg.get("machine_perm"): order in which the machines of a stage are visited (multi-start
    augmentation), identity by default."""

    name = "ffsp"

    def __init__(self, inst, cfg=None):
        super().__init__()
        self._inst = {"run_time": [[int(v) for v in r] for r in L(inst["run_time"])]}
        self._cfg = copy.deepcopy(cfg) if cfg is not None else {}
        self.rt = self._inst["run_time"]
        gen = self._cfg.get("gen", {})
        self.S = int(gen.get("num_stage", 2))
        self.M = int(gen.get("num_machine", 3))
        self.J = len(self.rt)
        self.K = self.S * self.M
        if any(len(r) != self.K for r in self.rt):
            raise RefError(f"run_time rows do not have num_stage*num_machine = {self.K} columns")
        self.perm = list(self._cfg.get("machine_perm") or range(self.M))
        self.tick = 0
        self.k = 0
        self.loc = [0] * self.J
        self.job_free = [0] * self.J
        self.ma_free = [0] * self.K
        self.sched = {}       # (job, stage) -> (machine, start, end)
        self.slots_skipped = 0

    def _fresh(self):
        return type(self)(self._inst, self._cfg)

    # -- slot geometry -------------------------------------------------------------------------------
    def stage(self, k=None):
        return (self.k if k is None else k) // self.M

    def machine(self, k=None):
        k = self.k if k is None else k
        return (k // self.M) * self.M + self.perm[k % self.M]

    @property
    def time(self):
        return self.tick

    def _all_done(self):
        return all(x == self.S for x in self.loc)

    def done(self):
        return "must" if self._all_done() else "not"

    def ready_jobs(self):
        s = self.stage()
        return [j for j in range(self.J) if self.loc[j] == s and self.job_free[j] <= self.tick]

    def _slot_ready(self):
        return self.ma_free[self.machine()] <= self.tick and bool(self.ready_jobs())

    def _wait_documented(self):
        """Appendix A: wait only while a job is still upstream of this stage or being processed for it."""
        s = self.stage()
        upstream = any(x < s for x in self.loc)
        arriving = any(self.loc[j] == s and self.job_free[j] > self.tick for j in range(self.J))
        return upstream or arriving

    def admissible(self):
        adm = self._adm()
        if self._all_done():
            adm[self.J] = "must"
            for j in range(self.J):
                self.why[j] = "job_finished"
            return adm
        s = self.stage()
        for j in range(self.J):
            if self.loc[j] != s:
                self.why[j] = "job_not_in_stage"
            elif self.job_free[j] > self.tick:
                self.why[j] = "job_in_process"
            elif self.ma_free[self.machine()] > self.tick:
                self.why[j] = "machine_busy"
            else:
                adm[j] = "must"
        if self._wait_documented():
            adm[self.J] = "must"
        else:
            self.why[self.J] = "pruned:no_job_upstream_or_in_process"
        return adm

    def pruned(self, a):
        return int(a) == self.J and not self._all_done() and not self._wait_documented()

    def _next_slot(self):
        guard = 0
        horizon = (max(self.ma_free + self.job_free + [self.tick]) - self.tick + 2) * self.K + 2
        while True:
            self.k += 1
            if self.k == self.K:
                self.k = 0
                self.tick += 1
            if self._slot_ready():
                return
            self.slots_skipped += 1
            guard += 1
            if guard > horizon:
                raise RefError("no ready slot found")

    def apply(self, a):
        a = int(a)
        self.t += 1
        if self._all_done():
            return
        if a != self.J:
            if not (0 <= a < self.J):
                raise RefError(f"action {a} out of range")
            mach, s = self.machine(), self.loc[a]
            if s >= self.S:
                raise RefError(f"job {a} already left the last stage")
            dur = self.rt[a][mach]
            self.sched[(a, s)] = (mach, self.tick, self.tick + dur)
            self.loc[a] += 1
            self.job_free[a] = self.tick + dur
            self.ma_free[mach] = self.tick + dur
        if not self._all_done():
            self._next_slot()

    def can_simulate(self, a):
        a = int(a)
        return a == self.J or (0 <= a < self.J and self.loc[a] < self.S)

    def step_bound(self):
        horizon = sum(max(r) for r in self.rt) + 1
        return self.J * self.S + horizon * self.K

    def makespan(self):
        return max((e for (_, _, e) in self.sched.values()), default=0)

    def objective(self, actions):
        m, _ = self.replay(actions)
        return -float(m.makespan())

    def violations(self, actions):
        m, problems = self.replay(actions)
        out = list(problems)
        if not m._all_done():
            out.append(("unfinished", {"job_location": m.loc}))
        return out

    def validate(self, schedule, reward=None):
        """schedule[S*M][J+1]: start time of job on machine, FFSP_UNSCHEDULED when never started there
        (the last column belongs to the dummy wait job and is padding)."""
        X = L(schedule)
        out = []
        chosen = {}
        for j in range(self.J):
            for s in range(self.S):
                ms = [m for m in range(s * self.M, (s + 1) * self.M) if X[m][j] != FFSP_UNSCHEDULED]
                if len(ms) != 1:
                    out.append(("once_per_stage", {"job": j, "stage": s, "machines": ms}))
                    continue
                m = ms[0]
                st = X[m][j]
                if st < 0:
                    out.append(("negative_start", {"job": j, "stage": s, "start": st}))
                chosen[(j, s)] = (m, st, st + self.rt[j][m])
            for s in range(self.S - 1):
                if (j, s) in chosen and (j, s + 1) in chosen and chosen[(j, s + 1)][1] < chosen[(j, s)][2]:
                    out.append(("stage_order", {"job": j, "stage": s, "end": chosen[(j, s)][2],
                                                "next_start": chosen[(j, s + 1)][1]}))
        for m in range(self.K):
            iv = sorted((st, en, j) for (j, s), (mm, st, en) in chosen.items() if mm == m)
            for a, b in zip(iv, iv[1:]):
                if b[0] < a[1]:
                    out.append(("machine_overlap", {"machine": m, "a": list(a), "b": list(b)}))
        if reward is not None and chosen and len(chosen) == self.J * self.S:
            mk = max(en for (_, _, en) in chosen.values())
            if float(reward) != -float(mk):
                out.append(("makespan", {"reward": float(reward), "latest_completion": mk}))
        return out

    def compare_schedule(self, schedule):
        X = L(schedule)
        out = []
        for (j, s), (m, st, en) in sorted(self.sched.items()):
            if X[m][j] != st:
                out.append(("ledger", {"job": j, "stage": s, "machine": m, "expected_start": st,
                                       "got": X[m][j]}))
        return out


# ====================================================================================================
# SMTWTP
# ====================================================================================================
class SMTWTPRef(SchedRef):
    """Single machine total weighted tardiness: process every job 1..n once, node 0 is a dummy."""

    name = "smtwtp"

    def __init__(self, inst, cfg=None):
        super().__init__()
        self._inst = {k: [float(v) for v in L(inst[k])]
                      for k in ("job_due_time", "job_weight", "job_process_time")}
        self._cfg = copy.deepcopy(cfg) if cfg is not None else {}
        self.due = self._inst["job_due_time"]
        self.w = self._inst["job_weight"]
        self.pt = self._inst["job_process_time"]
        self.n = len(self.pt) - 1
        self.order = []
        self.clock = 0.0

    def _fresh(self):
        return type(self)(self._inst, self._cfg)

    @property
    def time(self):
        return self.clock

    def admissible(self):
        adm = self._adm()
        self.why[0] = "dummy_node"
        for j in range(1, self.n + 1):
            if j in self.order:
                self.why[j] = "job_processed"
            else:
                adm[j] = "must"
        return adm

    def apply(self, a):
        a = int(a)
        self.t += 1
        if self.done() == "must":
            return
        self.order.append(a)
        if 0 <= a <= self.n:
            self.clock += self.pt[a]

    def done(self):
        return "must" if len(set(self.order) - {0}) >= self.n else "not"

    def step_bound(self):
        return self.n

    def objective(self, actions):
        c, tot = 0.0, 0.0
        for a in actions:
            a = int(a)
            c += self.pt[a]
            tot += self.w[a] * max(0.0, c - self.due[a])
        return -tot

    def violations(self, actions):
        acts = [int(a) for a in actions]
        out = []
        if 0 in acts:
            out.append(("dummy_scheduled", {"positions": [k for k, a in enumerate(acts) if a == 0]}))
        if sorted(acts) != list(range(1, self.n + 1)):
            out.append(("permutation", {"actions": acts, "n": self.n}))
        return out

    def tolerance(self):
        scale = max(1.0, abs(sum(self.w[j] * sum(self.pt) for j in range(1, self.n + 1))))
        return 1e-5 * scale * math.sqrt(max(self.n, 1))


REFS = {"fjsp": FJSPRef, "jssp": JSSPRef, "ffsp": FFSPRef, "smtwtp": SMTWTPRef}


def make_ref(name, inst, cfg=None):
    return REFS[name](inst, cfg)
