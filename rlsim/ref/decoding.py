"""Reference model of the per-step decoding distribution and of beam search.

float64 numpy, one row at a time, written from the statement of the properties (C10, C13), sharing no
code with rl4co.  The filters are NOT re-implementations of the library's filters: the reference
computes the *unfiltered* distribution and the sets / masses the property constrains, and the checks
are the clauses of the property:

    normalised;  masked => -inf;  the most likely feasible action is kept;  no more than k kept under
    top-k, ties at the k-th value aside;  kept mass of the distribution entering the nucleus filter
    >= p - 1e-6;  invariant under adding a constant to all logits.

When top-k and top-p are both active the two clauses can contradict each other if both are read against
the fully unfiltered distribution (k = 1, p = 0.9, flat logits), so the nucleus clause is read against
the distribution that enters the nucleus filter: the masked softmax restricted to the reference top-k
set and renormalised.
"""
from __future__ import annotations

import math

import numpy as np

NEG_INF = float("-inf")
MASS_TOL = 1e-6      # the property's own slack on the nucleus mass
NORM_TOL = 1e-5      # |sum exp(logp) - 1| for float32 log-softmax over <= a few hundred entries
TIE_EPS = 1e-6       # relative band in which two scores count as tied (float32 inputs, float64 maths)


def scores(logits, mask, temperature: float = 1.0, tanh_clipping: float = 0.0) -> np.ndarray:
    """z = (C*tanh(l) if C > 0 else l) / T on feasible entries, -inf on masked ones (float64)."""
    z = np.asarray(logits, dtype=np.float64).copy()
    if tanh_clipping and tanh_clipping > 0:
        z = np.tanh(z) * float(tanh_clipping)
    z = z / float(temperature)
    if mask is not None:
        z[~np.asarray(mask, dtype=bool)] = NEG_INF
    return z


def log_softmax(z: np.ndarray) -> np.ndarray:
    """log of the softmax over the finite entries of z; -inf stays -inf."""
    z = np.asarray(z, dtype=np.float64)
    fin = np.isfinite(z)
    if not fin.any():
        raise ValueError("no finite entry")
    m = z[fin].max()
    out = np.full(z.shape, NEG_INF)
    lse = m + math.log(np.exp(z[fin] - m).sum())
    out[fin] = z[fin] - lse
    return out


def masked_log_softmax(logits, mask, temperature=1.0, tanh_clipping=0.0) -> np.ndarray:
    """The unfiltered per-step distribution (log), float64."""
    return log_softmax(scores(logits, mask, temperature, tanh_clipping))


def tie_eps(v: float) -> float:
    return TIE_EPS * max(1.0, abs(v))


def maximisers(z: np.ndarray) -> list:
    """Indices whose score is within the tie band of the maximum."""
    fin = np.isfinite(z)
    m = z[fin].max()
    e = tie_eps(m)
    return [int(i) for i in np.nonzero(fin & (z >= m - e))[0]]


def topk_reference(z: np.ndarray, k: int):
    """Reference top-k of the feasible scores.

    Returns (must, may, kth): entries strictly above the k-th largest feasible score by more than the
    tie band, entries within the band of it (exact or near ties), and the k-th value.  k >= number of
    feasible entries (or k <= 0) -> everything feasible is `must`.
    """
    fin = np.nonzero(np.isfinite(z))[0]
    if k <= 0 or k >= len(fin):
        return [int(i) for i in fin], [], NEG_INF
    vals = np.sort(z[fin])[::-1]
    kth = float(vals[k - 1])
    e = tie_eps(kth)
    must = [int(i) for i in fin if z[i] > kth + e]
    may = [int(i) for i in fin if abs(z[i] - kth) <= e]
    return must, may, kth


def near_tie_at(z: np.ndarray, kth: float) -> bool:
    """True when some feasible score is within the band of kth without being exactly equal to it
    (float32 evaluation may order such a pair either way)."""
    if not math.isfinite(kth):
        return False
    e = tie_eps(kth)
    fin = np.isfinite(z)
    d = np.abs(z[fin] - kth)
    return bool(((d <= e) & (d > 0)).any())


def mass(logp_ref: np.ndarray, kept) -> float:
    kept = list(kept)
    if not kept:
        return 0.0
    return float(np.exp(logp_ref[kept]).sum())


def check_step(logits, mask, logprobs, temperature=1.0, top_p=0.0, top_k=0, tanh_clipping=0.0):
    """All distribution-level clauses of C10 for one row.

    Args: float32-valued arrays ``logits`` (as fed to the library, before in-place masking), boolean
    ``mask`` (>= 1 True) and the library's ``logprobs`` for that row.
    Returns ``(failures, notes)``: failures = list of (constraint, message, detail-dict); notes = set of
    strings ("near_tie_topk", "filtered", "single_feasible", ...) for probes / indeterminate counts.
    """
    fails, notes = [], set()
    mask = np.asarray(mask, dtype=bool)
    lp = np.asarray(logprobs, dtype=np.float64)
    n = len(lp)
    feas = [int(i) for i in np.nonzero(mask)[0]]
    if len(feas) == 1:
        notes.add("single_feasible")
    # ---- proper: no NaN, normalised ---------------------------------------------------------------
    if np.isnan(lp).any():
        fails.append(("normalised", "NaN in the step log-probabilities", {"nan": int(np.isnan(lp).sum())}))
        return fails, notes
    if (lp > 1e-6).any():
        fails.append(("normalised", f"log-probability above 0: {float(lp.max())!r}", {}))
    kept = [int(i) for i in np.nonzero(np.isfinite(lp))[0]]
    tot = float(np.exp(lp[kept]).sum()) if kept else 0.0
    if abs(tot - 1.0) > NORM_TOL:
        fails.append(("normalised", f"sum of probabilities = {tot!r}", {"sum": tot}))
    # ---- support: masked => zero probability ---------------------------------------------------------
    bad = [i for i in kept if not mask[i]]
    if bad:
        fails.append(("masked_zero", f"masked action(s) {bad} have probability "
                      f"{[float(np.exp(lp[i])) for i in bad]}", {"actions": bad}))
    # ---- reference distribution ----------------------------------------------------------------------
    z = scores(logits, mask, temperature, tanh_clipping)
    ref = log_softmax(z)
    top = maximisers(z)
    if not any(i in kept for i in top):
        fails.append(("argmax_kept", f"most likely feasible action {top} has zero probability "
                      f"(kept {kept})", {"argmax": top, "kept": kept}))
    filt_k = top_k is not None and top_k > 0
    filt_p = top_p is not None and top_p > 0
    support_ref = feas
    ambiguous = False
    if filt_k:
        must, may, kth = topk_reference(z, int(top_k))
        allowed = len(must) + len(may)
        if len(must) + len(may) < len(feas):
            notes.add("topk_active")
        if len(feas) < int(top_k):
            notes.add("fewer_feasible_than_k")
        if len(may) > 1:
            notes.add("tie_at_kth")
        n_kept_feas = len([i for i in kept if mask[i]])
        if n_kept_feas > max(allowed, 0):
            fails.append(("topk_count", f"{n_kept_feas} actions kept under top_k={top_k}; the reference "
                          f"allows {allowed} (k plus ties at the k-th value)",
                          {"kept": kept, "k": int(top_k), "allowed": allowed}))
        ambiguous = near_tie_at(z, kth)
        if ambiguous:
            notes.add("near_tie_topk")
        support_ref = sorted(must + may)
    if filt_p:
        p = float(top_p)
        if ambiguous:
            notes.add("nucleus_skipped_near_tie")
        else:
            q = log_softmax(np.where(np.isin(np.arange(n), support_ref), z, NEG_INF))
            got = mass(q, [i for i in kept if i in set(support_ref)])
            if got < min(p, 1.0) - MASS_TOL:
                fails.append(("nucleus_mass", f"kept mass {got!r} of the unfiltered distribution < top_p={p}",
                              {"mass": got, "top_p": p, "kept": kept}))
            if len(kept) < len(support_ref):
                notes.add("nucleus_active")
            # nucleus falling on masked entries: the unmasked logits' nucleus would have contained
            # a masked action
            raw = np.asarray(logits, dtype=np.float64)
            if (~mask).any() and raw[~mask].max() > raw[mask].max():
                notes.add("nucleus_on_masked")
    if not filt_k and not filt_p:
        # no filter: the library's distribution IS the reference one (float32 log-softmax tolerance)
        d = _max_abs_diff(lp, ref)
        tol = 1e-5 * max(1.0, float(np.abs(ref[np.isfinite(ref)]).max())) + _ulp_floor(z)
        if d is None:
            fails.append(("support", "support differs from the feasible set without any filter",
                          {"kept": kept, "feasible": feas}))
        elif d > tol:
            # entries whose probability underflows float32 legitimately read -inf there
            fails.append(("value", f"unfiltered log-probabilities differ from the float64 masked softmax "
                          f"by {d!r}", {"diff": d}))
    else:
        # filtered: on the kept set the distribution is the reference one renormalised
        if kept and all(mask[i] for i in kept):
            q = log_softmax(np.where(np.isin(np.arange(n), kept), z, NEG_INF))
            d = _max_abs_diff(lp, q)
            tol = 1e-5 * max(1.0, float(np.abs(q[np.isfinite(q)]).max())) + _ulp_floor(z)
            if d is not None and d > tol:
                fails.append(("value", f"kept log-probabilities are not the renormalised unfiltered ones "
                              f"(diff {d!r})", {"diff": d}))
    return fails, notes


def _ulp_floor(z: np.ndarray) -> float:
    """float32 rounding of the scores themselves (logits / temperature): a few ulps of the largest
    finite magnitude.  Without it, scores in the thousands (unscaled CVRPTW features, T = 0.2) flag
    pure float32 rounding."""
    f = z[np.isfinite(z)]
    return 8 * 1.1920929e-07 * float(np.abs(f).max()) if f.size else 0.0


def _max_abs_diff(a: np.ndarray, b: np.ndarray):
    """max |a-b| over entries finite in both; None when the finite supports differ beyond float32
    underflow (an entry that is -inf in one and > -80 in the other)."""
    fa, fb = np.isfinite(a), np.isfinite(b)
    only = fa ^ fb
    if only.any():
        # float32 exp underflows near -104; log_softmax itself does not underflow, so a one-sided -inf
        # with the other side above -80 is a genuine support difference
        vals = np.where(fa, a, b)[only]
        if (vals > -80).any():
            return None
    both = fa & fb
    if not both.any():
        return 0.0
    return float(np.abs(a[both] - b[both]).max())


def shift_tolerance(logits, c: float, temperature: float) -> float:
    """How far log-probabilities may move when a constant c is added to float32 logits: the addition
    rounds each logit to the float32 grid at magnitude |l| + |c|, the error is amplified by 1/T."""
    m = float(np.abs(np.asarray(logits, dtype=np.float64)).max()) + abs(c)
    ulp = 2.0 ** (math.floor(math.log2(max(m, 1e-30))) - 23)
    return 1e-6 + 4.0 * ulp / float(temperature)


# ------------------------------------------------------------------------------------------------
# beam search
# ------------------------------------------------------------------------------------------------
def beam_candidates(parent_scores, step_logp):
    """All feasible expansions of one instance: list of (score, parent, action), best first.
    parent_scores[s] float; step_logp[s][a] float (-inf = infeasible / filtered)."""
    out = []
    for s, ps in enumerate(parent_scores):
        row = step_logp[s]
        for a in range(len(row)):
            v = float(row[a])
            if v == NEG_INF or v != v:
                continue
            out.append((float(ps) + v, s, a))
    out.sort(key=lambda c: (-c[0], c[1], c[2]))
    return out


def beam_step(parent_scores, step_logp, width: int, eps_rel: float = TIE_EPS):
    """Reference beam step: which (parent, action) pairs must / may be among the `width` kept ones.

    Returns (must, may, kth): `must` = pairs scoring above the width-th best by more than the tie band,
    `may` = pairs within the band of it.  A correct step keeps all of `must` and fills the remaining
    slots from `may`.
    """
    cands = beam_candidates(parent_scores, step_logp)
    if len(cands) <= width:
        return [(s, a) for _, s, a in cands], [], NEG_INF, cands
    kth = cands[width - 1][0]
    e = eps_rel * max(1.0, abs(kth))
    must = [(s, a) for v, s, a in cands if v > kth + e]
    may = [(s, a) for v, s, a in cands if abs(v - kth) <= e]
    return must, may, kth, cands


def beam_search(step_fn, roots, width: int, max_steps: int = 10_000):
    """Plain reference beam search for one instance.

    ``roots``: list of `width` initial states (after the forced first moves), each any object.
    ``step_fn(state) -> (logp_row, expand)`` gives the step log-probabilities (-inf = infeasible) and a
    function ``expand(action) -> (new_state, done)``.  Ties are broken by (parent, action) order.  Returns
    the list of (score, action_list) of the final beams.  Used for self-checks of the per-step oracle on
    toy models; the C13 history check uses ``beam_step`` on the recorded steps.
    """
    beams = [(0.0, [], st, False) for st in roots]
    for _ in range(max_steps):
        if all(b[3] for b in beams):
            break
        rows, exps = [], []
        for sc, acts, st, dn in beams:
            lp, ex = step_fn(st)
            rows.append(lp)
            exps.append(ex)
        cands = beam_candidates([b[0] for b in beams], rows)[:width]
        new = []
        for v, s, a in cands:
            st2, dn2 = exps[s](a)
            new.append((v, beams[s][1] + [a], st2, dn2))
        beams = new
    return [(b[0], b[1]) for b in beams]
