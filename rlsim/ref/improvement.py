"""Reference model for the improvement environments (k-opt TSP, PDP ruin-repair).

Pure Python, float64, one instance at a time; shares no code with rl4co.  A tour is a *successor
array* `rec` (a Python list): rec[i] = j means the tour goes from node i to node j.

The model verifies *outcomes* (is this still a tour, what does it cost, what is the best tour seen so
far); it does not need to predict which tour a move produces.  `two_opt` and `remove_reinsert_pair`
are nevertheless given as independent list-based operators (used by the scenario as an
observation, and by other checks to build neighbours).
"""
from __future__ import annotations

import math


def L(x):
    return x.tolist() if hasattr(x, "tolist") else x


# ------------------------------------------------------------------------------------------------
# successor arrays
# ------------------------------------------------------------------------------------------------
def order_from(rec, start: int = 0):
    """Visiting order obtained by following successors from `start` for len(rec) hops, or None
    when an index is out of range.  (The list has len(rec) entries whether or not rec is a cycle.)"""
    n = len(rec)
    out, cur = [], start
    for _ in range(n):
        if not isinstance(cur, int) or not (0 <= cur < n):
            return None
        out.append(cur)
        cur = rec[cur]
    return out


def is_single_cycle(rec) -> bool:
    """True iff rec is a permutation of 0..n-1 consisting of exactly one cycle of length n."""
    rec = [int(x) for x in rec]
    n = len(rec)
    if n == 0:
        return False
    if sorted(rec) != list(range(n)):
        return False
    seen = [False] * n
    cur = 0
    for _ in range(n):
        if seen[cur]:
            return False
        seen[cur] = True
        cur = rec[cur]
    return cur == 0 and all(seen)


def why_not_cycle(rec) -> str:
    rec = [int(x) for x in rec]
    n = len(rec)
    if any(not (0 <= x < n) for x in rec):
        return "successor out of range"
    if sorted(rec) != list(range(n)):
        return "successors are not a permutation (some node has two predecessors)"
    if any(rec[i] == i for i in range(n)) and n > 1:
        return "a node is its own successor"
    o = order_from(rec, 0)
    k = len(set(o))
    return f"tour from node 0 closes after {k} of {n} nodes (several sub-cycles)"


def tour_length(locs, rec) -> float:
    """Sum over nodes of the Euclidean length of the edge node -> successor (float64)."""
    s = 0.0
    for i, j in enumerate(rec):
        j = int(j)
        s += math.hypot(locs[i][0] - locs[j][0], locs[i][1] - locs[j][1])
    return s


def positions(rec):
    """pos[node] = number of hops from node 0 (node 0 -> 0), for a single cycle."""
    o = order_from([int(x) for x in rec], 0)
    pos = [None] * len(rec)
    for k, v in enumerate(o):
        pos[v] = k
    return pos


def visited_time_consistent(rec, visited_time) -> bool:
    """`visited_time` shown to the policy must give every node its position along the tour counted
    from node 0; the environment writes n (instead of 0) for node 0 itself, so compare modulo n."""
    n = len(rec)
    pos = positions(rec)
    return all(int(visited_time[i]) % n == pos[i] for i in range(n))


def rec_from_order(order):
    rec = [0] * len(order)
    for k, v in enumerate(order):
        rec[v] = order[(k + 1) % len(order)]
    return rec


def same_cycle_undirected(rec_a, rec_b) -> bool:
    """Equal as undirected Hamiltonian cycles (edge sets coincide)."""
    ea = {frozenset((i, int(j))) for i, j in enumerate(rec_a)}
    eb = {frozenset((i, int(j))) for i, j in enumerate(rec_b)}
    return ea == eb


# ------------------------------------------------------------------------------------------------
# PDP
# ------------------------------------------------------------------------------------------------
def pdp_precedence_ok(rec) -> bool:
    """Nodes: 0 depot, 1..h pickups, h+1..2h deliveries (h = (n-1)/2).  Walking from the depot,
    pickup i must come before its delivery i+h."""
    n = len(rec)
    h = (n - 1) // 2
    pos = positions(rec)
    return all(pos[i] < pos[i + h] for i in range(1, h + 1))


def pdp_precedence_breaches(rec):
    n = len(rec)
    h = (n - 1) // 2
    pos = positions(rec)
    return [i for i in range(1, h + 1) if not pos[i] < pos[i + h]]


# ------------------------------------------------------------------------------------------------
# independent move operators on Python lists (outcome predictors; observation only)
# ------------------------------------------------------------------------------------------------
def two_opt(rec, first: int, second: int):
    """DACT 2-opt on a successor array: the tour segment that starts at `first` and ends at
    `second` (following successors) is reversed in place: pred(first) -> second ... first ->
    succ(second).  When the segment is the whole cycle the result is the reversed cycle."""
    order = order_from([int(x) for x in rec], first)  # first ... (whole cycle, starting at first)
    k = order.index(second)
    seg, rest = order[: k + 1], order[k + 1:]
    new_order = list(reversed(seg)) + rest
    return rec_from_order(new_order)


def remove_reinsert_pair(rec, pair0: int, first: int, second: int):
    """N2S ruin-repair: pickup p = pair0+1 and its delivery d = p+h are taken out of the tour; d is
    put right after `second`, then p right after `first` (first/second are nodes of the reduced
    tour)."""
    n = len(rec)
    h = (n - 1) // 2
    p, d = pair0 + 1, pair0 + 1 + h
    order = [v for v in order_from([int(x) for x in rec], 0) if v not in (p, d)]
    order.insert(order.index(second) + 1, d)
    order.insert(order.index(first) + 1, p)
    return rec_from_order(order)


def random_tour(rng, n: int, pdp: bool = False):
    """A uniformly shuffled tour (for PDP: depot first, every pickup before its delivery) as a
    successor array; `rng` is a random.Random."""
    if not pdp:
        order = list(range(n))
        rng.shuffle(order)
        return rec_from_order(order)
    h = (n - 1) // 2
    order = [0]
    avail = list(range(1, h + 1))
    while avail:
        v = avail.pop(rng.randrange(len(avail)))
        order.append(v)
        if v <= h:
            avail.append(v + h)
    return rec_from_order(order)


# ------------------------------------------------------------------------------------------------
# best-so-far ledger
# ------------------------------------------------------------------------------------------------
class Ledger:
    """Every tour an episode has shown, with its float64 length; the best so far is the minimum."""

    def __init__(self, locs, rec0, pdp: bool = False):
        self.locs = [[float(a), float(b)] for a, b in locs]
        self.pdp = pdp
        self.n = len(self.locs)
        self.lengths = []
        self.initial = None
        self.best = None
        self.best_at = None
        self.observe(rec0)
        self.initial = self.best

    def length(self, rec) -> float:
        return tour_length(self.locs, rec)

    def observe(self, rec) -> float:
        ln = self.length(rec)
        self.lengths.append(ln)
        if self.best is None or ln < self.best:
            self.best, self.best_at = ln, len(self.lengths) - 1
        return ln

    def valid(self, rec):
        """-> (ok, constraint, message)"""
        if len(rec) != self.n:
            return False, "size", f"tour has {len(rec)} entries for {self.n} nodes"
        if not is_single_cycle(rec):
            return False, "single_cycle", why_not_cycle(rec)
        if self.pdp:
            br = pdp_precedence_breaches(rec)
            if br:
                return False, "precedence", f"pickup(s) {br} visited after their delivery"
        return True, "", ""


def tol(ref: float, n: int = 1) -> float:
    return 1.5e-6 * max(1.0, abs(ref)) * math.sqrt(max(n, 1))  # float32 sums stay within ~2e-7 relative (measured)
