"""Reference models for the selection environments: FLP, MCP, DPP / MDPP.

Pure Python, float64, one instance at a time, written from the problem definitions; shares no code
with rl4co.  Same interface as the routing references:

    admissible()  -> {action: "must"}   (absent = must_not; self.why[action] names the constraint)
    classify(a)   -> ("must" | "not", why)
    apply(a), done() -> "must" | "not", step_bound() (= quota)
    objective(actions) -> float | None   (what the environment should report as reward;
                                           None = not modelled: DPP / MDPP decap simulator)
    violations(actions) -> [(constraint, magnitude)]
    bookkeeping() -> dict of what the state shown to the policy must contain after the selections
                     made so far (only the keys that are functions of the selection)
    optimum() -> (best objective, one best action tuple) by brute force (tiny sizes only)

Everything discrete: there is no tolerance band in these problems, so classifications are only ever
"must" or "not".

Instance formats (keys handed to env.reset):
    FLP   locs [n,2], orig_distances [n,n], distances [n], chosen [n] bool, to_choose [] or [1]
    MCP   membership [S,max] float, 1-based item ids, 0 = padding (anywhere in the row; duplicates
          of an item inside a row are allowed in hand-built data), weights [I], n_sets_to_choose [1]
    DPP   locs [n*n,2], probe [1] int (cell index), action_mask [n*n] bool (False = keep-out or probe)
    MDPP  locs [n*n,2], probe [n*n] bool, action_mask [n*n] bool (False = keep-out; probes are
          forbidden whether or not the mask already says so)
"""
from __future__ import annotations

import copy
import itertools


def L(x):
    return x.tolist() if hasattr(x, "tolist") else x


def _scalar(x):
    x = L(x)
    while isinstance(x, (list, tuple)):
        x = x[0]
    return x


class SelRef:
    name = "?"

    def __init__(self):
        self.why = {}
        self.chosen = []      # actions in selection order
        self.quota = 0
        self.n_actions = 0
        self.t = 0

    def clone(self):
        return copy.deepcopy(self)

    # -- feasibility ------------------------------------------------------------------------------
    def forbidden(self, a) -> str:
        """'' when the item may ever be selected, else the name of the constraint."""
        return ""

    def admissible(self):
        self.why = {}
        out = {}
        full = len(self.chosen) >= self.quota
        cs = set(self.chosen)
        for a in range(self.n_actions):
            f = self.forbidden(a)
            if f:
                self.why[a] = f
            elif a in cs:
                self.why[a] = "duplicate"
            elif full:
                self.why[a] = "quota"   # extra selections are not part of the problem
            else:
                out[a] = "must"
        return out

    def allowed_mask(self):
        """What the mask has to be by the property's definition: not chosen and allowed
        (also after the quota has been reached)."""
        cs = set(self.chosen)
        return [(not self.forbidden(a)) and (a not in cs) for a in range(self.n_actions)]

    def classify(self, a):
        adm = self.admissible()
        return adm.get(a, "not"), self.why.get(a, "")

    def pruned(self, a) -> bool:
        return False

    def apply(self, a):
        self.chosen.append(int(a))
        self.t += 1

    def done(self) -> str:
        return "must" if len(self.chosen) >= self.quota else "not"

    def step_bound(self) -> int:
        return self.quota

    # -- verdicts ---------------------------------------------------------------------------------
    def violations(self, actions):
        actions = [int(a) for a in actions]
        out = []
        if len(actions) != self.quota:
            out.append(("quota", len(actions) - self.quota))
        if len(set(actions)) != len(actions):
            out.append(("duplicate", len(actions) - len(set(actions))))
        for a in actions:
            if not (0 <= a < self.n_actions):
                out.append(("range", a))
            elif self.forbidden(a):
                out.append((self.forbidden(a), a))
        return out

    def objective(self, actions):
        return None

    def bookkeeping(self) -> dict:
        return {"i": len(self.chosen)}

    def free_items(self):
        return [a for a in range(self.n_actions) if not self.forbidden(a)]

    def enumerate_solutions(self, limit: int = 5000):
        free = self.free_items()
        for k, c in enumerate(itertools.combinations(free, self.quota)):
            if k >= limit:
                return
            yield c

    def optimum(self, limit: int = 200000):
        best, arg = None, None
        for k, c in enumerate(itertools.combinations(self.free_items(), self.quota)):
            if k >= limit:
                break
            v = self.objective(c)
            if v is None:
                return None, None
            if best is None or v > best:
                best, arg = v, c
        return best, arg


# ------------------------------------------------------------------------------------------------
class FLPRef(SelRef):
    """Facility location: choose `to_choose` distinct locations; cost = sum over all points of
    the distance to the nearest chosen location (row a of orig_distances = distances from a)."""
    name = "flp"

    def __init__(self, inst, cfg=None):
        super().__init__()
        self.D = [[float(x) for x in row] for row in L(inst["orig_distances"])]
        self.n_actions = len(self.D)
        self.quota = int(_scalar(inst["to_choose"]))
        self.init_distances = [float(x) for x in L(inst["distances"])]

    def nearest(self, actions):
        acts = list(dict.fromkeys(int(a) for a in actions))
        if not acts:
            return list(self.init_distances)
        return [min(self.D[a][j] for a in acts) for j in range(self.n_actions)]

    def objective(self, actions):
        return -sum(self.nearest(actions))

    def bookkeeping(self):
        cs = set(self.chosen)
        return {"i": len(self.chosen),
                "chosen": [a in cs for a in range(self.n_actions)],
                "distances": self.nearest(self.chosen)}


# ------------------------------------------------------------------------------------------------
class MCPRef(SelRef):
    """Maximum coverage: choose `n_sets_to_choose` distinct sets; reward = total weight of the
    items contained in at least one chosen set.  Item ids are 1-based, 0 is padding."""
    name = "mcp"

    def __init__(self, inst, cfg=None):
        super().__init__()
        self.membership = [[int(round(float(x))) for x in row] for row in L(inst["membership"])]
        self.weights = [float(x) for x in L(inst["weights"])]
        self.n_actions = len(self.membership)
        self.n_items = len(self.weights)
        self.quota = int(round(float(_scalar(inst["n_sets_to_choose"]))))

    def covered(self, actions):
        cov = set()
        for a in set(int(x) for x in actions):
            for it in self.membership[a]:
                if it != 0:
                    cov.add(it)
        return cov

    def objective(self, actions):
        return sum(self.weights[it - 1] for it in sorted(self.covered(actions)))

    def bookkeeping(self):
        cs = set(self.chosen)
        cov = self.covered(self.chosen)
        return {"i": len(self.chosen),
                "chosen": [a in cs for a in range(self.n_actions)],
                "weights": [0.0 if (k + 1) in cov else w for k, w in enumerate(self.weights)],
                "membership": [[0] * len(row) if a in cs else list(row)
                               for a, row in enumerate(self.membership)]}


# ------------------------------------------------------------------------------------------------
class DPPRef(SelRef):
    """Decap placement (single probe: `dpp`, several probes: `mdpp`): place exactly `max_decaps`
    decaps on distinct cells that are neither keep-out cells nor probing ports.  The quota is the
    one the environment was configured with (cfg['gen']['max_decaps']).  The electrical objective
    is not modelled."""
    name = "dpp"

    def __init__(self, inst, cfg=None):
        super().__init__()
        cfg = cfg or {}
        self.name = cfg.get("env", "dpp")
        am = [bool(x) for x in L(inst["action_mask"])]
        self.n_actions = len(am)
        self.keepout = [not b for b in am]
        probe = L(inst["probe"])
        if self.name == "mdpp":
            self.probes = [k for k, b in enumerate(probe) if b]
        else:
            self.probes = [int(_scalar(probe))]
        self.quota = int(cfg.get("gen", {}).get("max_decaps", 20))

    def forbidden(self, a):
        if a in self.probes:
            return "probe"
        if self.keepout[a]:
            return "keepout"
        return ""

    def bookkeeping(self):
        return {"i": len(self.chosen)}


REFS = {"flp": FLPRef, "mcp": MCPRef, "dpp": DPPRef, "mdpp": DPPRef}


def make_ref(name, inst, cfg=None):
    return REFS[name](inst, cfg)
