"""Helpers for the inference / evaluation checks (C14, C15).

* policy factory: tiny bundled policies (embed_dim 32, 1-2 layers) whose weights are a pure function of
  the plan (``torch.manual_seed`` right before construction), put in ``eval()`` mode;
* ``RowKeyedRNG``: seam that makes random draws inside a policy forward pass a function of
  (instance id, call number) instead of the global generator and the batch layout;
* ``GreedyTap``: records, for every greedy selection made inside a forward pass, the full log-prob
  row of every batch row and the selected action, plus a marker for every ``env.get_reward`` call
  (path boundaries of multi-decoder policies);
* ``PolicyTap``: ``nn.Module`` wrapper recording every forward call's input td, keyword arguments and
  outputs (what did evaluation see).

Nothing in here re-implements rl4co logic.
"""
from __future__ import annotations

import contextlib

import torch
import torch.nn as nn

from .kernel import H, HarnessError

# --------------------------------------------------------------------------------------------------
# allow-list (DESIGN Appendix B), verified to construct and run offline
# --------------------------------------------------------------------------------------------------
AM_ENVS = ["tsp", "cvrp", "cvrptw", "sdvrp", "svrp", "op", "pctsp", "spctsp", "pdp", "mtsp", "mtvrp",
           "smtwtp"]
COMBOS = ([("am", e) for e in AM_ENVS]
          + [("ptrnet", "tsp"), ("ham", "pdp"), ("mdam", "tsp"), ("mdam", "cvrp"),
             ("polynet", "tsp"), ("polynet", "cvrp"), ("symnco", "tsp"), ("symnco", "cvrp"),
             ("matnet", "atsp"), ("l2d", "fjsp"), ("l2d", "jssp"), ("nar", "tsp"), ("nar", "cvrp"),
             ("mvmoe", "tsp"), ("mvmoe", "cvrp"), ("mvmoe", "cvrptw")])

EXCLUDED = [
    "MatNetPolicy x ffsp: constructor raises TypeError (out_bias) - cannot be built",
    "AttentionModelPolicy x {atsp, flp, mcp, ffsp, fjsp, jssp, mdcpdp with D>1}: no or inconsistent embeddings for these environments",
    "AttentionModelPolicy x {dpp, mdpp}: need EDA data files (offline: stub data only; decap simulator reward not in C14's env list)",
    "DeepACO / NARGNN policies: need torch_geometric (absent offline)",
    "DACT / NeuOpt / N2S: improvement policies, not constructive (C09)",
    "multi-start greedy on op: start-node rule depends on the whole batch (C12 finding), on fjsp/jssp: NotImplementedError by design",
    "EAS / ActiveSearch: test-time training, not inference",
    "L2DAttnPolicy / L2DPolicy(stepwise_encoding): not in Appendix B's allow-list (quick-tier budget)",
    "L2DPolicy(het_emb=False) x jssp: GCN4JSSP encoder needs torch_geometric (absent offline)",
    "MDAMPolicy with eg_step_gap below the episode length: the re-encoding branch raises AttributeError "
    "('MDAMDecoder' has no attribute 'is_vrp') at every batch size alike - an observation, not a "
    "composition effect; the default gap (200) is never reached at the sizes used",
]

NORMS = ["batch", "instance", "layer"]


def sample_policy_spec(name: str, env_name: str, rng) -> dict:
    """JSON-able description of a tiny policy; everything the constructor needs plus the weight seed."""
    spec = {"name": name, "env": env_name, "seed": rng.randrange(1 << 30),
            "embed_dim": 32, "layers": rng.choice([1, 1, 2]), "heads": rng.choice([1, 2, 4]), "kw": {}}
    if name in ("am", "ham", "symnco", "mdam"):
        spec["kw"]["normalization"] = rng.choice(NORMS if name != "mdam" else ["batch", "instance"])
    if name == "mvmoe":
        # attention model with mixture-of-experts feed-forward blocks (MVMoE): encoder MoE, optionally the
        # hierarchical (non-light) decoder MoE; the light decoder gate averages over the batch and samples by design
        spec["kw"]["normalization"] = rng.choice(["instance", "batch"])
        spec["kw"]["moe"] = {"num_experts": rng.choice([2, 4]), "k": rng.choice([1, 2]),
                             "decoder": rng.random() < 0.5}
    if name == "polynet":
        spec["kw"]["k"] = rng.choice([2, 3, 4])
        spec["kw"]["normalization"] = rng.choice(["instance", "batch"])
    if name == "mdam":
        spec["kw"]["num_paths"] = rng.choice([2, 3])
    if name in ("am", "ham", "symnco"):  # (PolyNetPolicy forwards its kwargs to the encoder too: not settable)
        spec["kw"]["use_graph_context"] = rng.random() < 0.5
    return spec


def make_policy(spec: dict):
    """Build the real policy described by spec (weights = f(spec['seed'])), in eval mode."""
    from rl4co.models import (AttentionModelPolicy, HeterogeneousAttentionModelPolicy, L2DPolicy,
                              MatNetPolicy, MDAMPolicy, PointerNetworkPolicy, SymNCOPolicy)
    from rl4co.models.zoo.polynet.policy import PolyNetPolicy

    name, env_name = spec["name"], spec["env"]
    d, layers, heads = spec["embed_dim"], spec["layers"], spec["heads"]
    kw = dict(spec.get("kw", {}))
    torch.manual_seed(spec["seed"])
    base = dict(env_name=env_name, embed_dim=d, num_encoder_layers=layers, num_heads=heads)
    if name == "am":
        p = AttentionModelPolicy(feedforward_hidden=2 * d, **base, **kw)
    elif name == "ptrnet":
        p = PointerNetworkPolicy(env_name=env_name, embed_dim=d, hidden_dim=d)
    elif name == "ham":
        p = HeterogeneousAttentionModelPolicy(feedforward_hidden=2 * d, **base, **kw)
    elif name == "mdam":
        p = MDAMPolicy(**base, **kw)
    elif name == "polynet":
        p = PolyNetPolicy(feedforward_hidden=2 * d, **base, **kw)
    elif name == "symnco":
        p = SymNCOPolicy(feedforward_hidden=2 * d, **base, **kw)
    elif name == "matnet":
        p = MatNetPolicy(**base, **kw)
    elif name == "l2d":
        p = L2DPolicy(env_name=env_name, embed_dim=d, num_encoder_layers=layers, **kw)
    elif name == "mvmoe":
        moe = kw.pop("moe")
        enc = {"hidden_act": "ReLU", "num_experts": moe["num_experts"], "k": moe["k"], "noisy_gating": True}
        dec = {"light_version": False, "num_experts": moe["num_experts"], "k": moe["k"], "noisy_gating": True} \
            if moe["decoder"] else None
        p = AttentionModelPolicy(feedforward_hidden=2 * d, moe_kwargs={"encoder": enc, "decoder": dec}, **base, **kw)
    elif name == "nar":  # real NonAutoregressivePolicy/Decoder behind a stub heatmap encoder (policies.py)
        from .policies import make_nar_policy

        p = make_nar_policy(env_name, spec["seed"])
    else:
        raise HarnessError(f"unknown policy {name}")
    # give batch-norm layers non-trivial running statistics (a trained model has them); still a pure
    # function of the seed
    g = torch.Generator().manual_seed(spec["seed"] + 1)
    for m in p.modules():
        if isinstance(m, nn.modules.batchnorm._BatchNorm) and m.running_mean is not None:
            m.running_mean.copy_(torch.randn(m.running_mean.shape, generator=g) * 0.1)
            m.running_var.copy_(0.5 + torch.rand(m.running_var.shape, generator=g))
    p.eval()
    return p


# --------------------------------------------------------------------------------------------------
# row-keyed RNG seam
# --------------------------------------------------------------------------------------------------
class RowKeyedRNG:
    """While active, ``torch.rand`` / ``randn`` / ``randint`` / ``rand_like`` / ``randn_like`` /
    ``randperm`` called without an explicit generator draw row i (dim 0 == len(ids), or a multiple of
    it: replica-major layout of batchify) from ``Generator(H(ids[i], replica, call_no))``; other shapes
    draw from ``Generator(H('free', call_no))``.  Per-instance random draws thereby become independent
    of the batch composition; every value is one the real generator can return."""

    NAMES = ("rand", "randn", "randint", "rand_like", "randn_like", "randperm")

    def __init__(self, ids, salt=0):
        self.ids = list(ids)
        self.salt = salt
        self.calls = 0
        self.keyed = 0
        self.free = 0
        self._orig = {}

    # -- helpers
    def _gen(self, *key):
        return torch.Generator().manual_seed(H(self.salt, *key) % (2**62))

    @staticmethod
    def _shape(size):
        if len(size) == 1 and isinstance(size[0], (tuple, list, torch.Size)):
            return tuple(int(s) for s in size[0])
        return tuple(int(s) for s in size)

    def _rows(self, shape, draw):
        """draw(shape_tail, generator) -> tensor; assemble per-row draws."""
        call = self.calls
        self.calls += 1
        B = len(self.ids)
        if len(shape) >= 1 and B > 0 and shape[0] >= B and shape[0] % B == 0:
            self.keyed += 1
            rows = []
            for r in range(shape[0]):
                g = self._gen(self.ids[r % B], r // B, call)
                rows.append(draw(shape[1:], g))
            return torch.stack(rows, 0)
        self.free += 1
        return draw(shape, self._gen("free", call))

    def __enter__(self):
        o = self._orig = {n: getattr(torch, n) for n in self.NAMES}
        seam = self

        def strip(kw):
            kw = dict(kw)
            dev = kw.pop("device", None)
            kw.pop("out", None)
            kw.pop("requires_grad", None)
            kw.pop("layout", None)
            kw.pop("pin_memory", None)
            return kw, dev

        def rand(*size, generator=None, **kw):
            if generator is not None:
                return o["rand"](*size, generator=generator, **kw)
            kw, dev = strip(kw)
            out = seam._rows(seam._shape(size), lambda s, g: o["rand"](s, generator=g, **kw))
            return out.to(dev) if dev is not None else out

        def randn(*size, generator=None, **kw):
            if generator is not None:
                return o["randn"](*size, generator=generator, **kw)
            kw, dev = strip(kw)
            out = seam._rows(seam._shape(size), lambda s, g: o["randn"](s, generator=g, **kw))
            return out.to(dev) if dev is not None else out

        def randint(*args, generator=None, **kw):
            if generator is not None:
                return o["randint"](*args, generator=generator, **kw)
            kw, dev = strip(kw)
            args = list(args)
            size = kw.pop("size", None)
            if size is None:
                size = args.pop()  # randint(high, size) / randint(low, high, size)
            lohi = args
            out = seam._rows(tuple(int(s) for s in size),
                             lambda s, g: o["randint"](*lohi, tuple(s), generator=g, **kw))
            return out.to(dev) if dev is not None else out

        def rand_like(x, **kw):
            kw.pop("memory_format", None)
            kw.setdefault("dtype", x.dtype)
            return rand(*x.shape, device=x.device, **kw)

        def randn_like(x, **kw):
            kw.pop("memory_format", None)
            kw.setdefault("dtype", x.dtype)
            return randn(*x.shape, device=x.device, **kw)

        def randperm(n, generator=None, **kw):
            if generator is not None:
                return o["randperm"](n, generator=generator, **kw)
            call = seam.calls
            seam.calls += 1
            seam.free += 1
            kw, dev = strip(kw)
            out = o["randperm"](n, generator=seam._gen("free", call), **kw)
            return out.to(dev) if dev is not None else out

        for n, f in (("rand", rand), ("randn", randn), ("randint", randint), ("rand_like", rand_like),
                     ("randn_like", randn_like), ("randperm", randperm)):
            setattr(torch, n, f)
        return self

    def __exit__(self, *exc):
        for n, f in self._orig.items():
            setattr(torch, n, f)
        return False


# --------------------------------------------------------------------------------------------------
# greedy tap
# --------------------------------------------------------------------------------------------------
class GreedyTap:
    """Records every ``DecodingStrategy.greedy`` call (all policies funnel their greedy selection
    through it) as ('step', logprobs[R,N], selected[R]) and every ``env.get_reward`` call on the given
    env as ('reward', actions).  ``segments()`` splits the steps at reward markers."""

    def __init__(self, env=None):
        self.env = env
        self.events = []

    def __enter__(self):
        from rl4co.utils.decoding import DecodingStrategy

        self._DS = DecodingStrategy
        self._orig = DecodingStrategy.__dict__["greedy"]
        orig_fn = self._orig.__func__ if isinstance(self._orig, staticmethod) else self._orig
        tap = self

        def greedy(logprobs, mask=None):
            sel = orig_fn(logprobs, mask)
            tap.events.append(("step", logprobs.detach().clone(), sel.detach().clone()))
            return sel

        DecodingStrategy.greedy = staticmethod(greedy)
        self._env_had = None
        if self.env is not None:
            self._env_had = self.env.__dict__.get("get_reward", None)
            env_get_reward = self.env.get_reward

            def get_reward(td, actions):
                tap.events.append(("reward", actions.detach().clone()))
                return env_get_reward(td, actions)

            self.env.get_reward = get_reward
        return self

    def __exit__(self, *exc):
        self._DS.greedy = self._orig
        if self.env is not None:
            if self._env_had is None:
                self.env.__dict__.pop("get_reward", None)
            else:
                self.env.get_reward = self._env_had
        return False

    def segments(self):
        """[(steps, actions_or_None)] - one entry per get_reward call (plus a trailing open one)."""
        segs, cur = [], []
        for ev in self.events:
            if ev[0] == "step":
                cur.append((ev[1], ev[2]))
            else:
                segs.append((cur, ev[1]))
                cur = []
        if cur:
            segs.append((cur, None))
        return segs


# --------------------------------------------------------------------------------------------------
# policy tap
# --------------------------------------------------------------------------------------------------
class PolicyTap(nn.Module):
    """Thin wrapper around a policy recording every forward call (input td as given, keyword
    arguments, outputs).  Optionally injects the environment when the caller passed none (the
    evaluation classes call ``policy(td)`` and the policy would otherwise build a default env from its
    env_name with default constructor arguments)."""

    def __init__(self, policy, env=None, inject_env=True):
        super().__init__()
        self.policy = policy
        self._env = [env]  # in a list: not a submodule / not part of state
        self.inject_env = inject_env
        self.calls = []

    def forward(self, td, *args, **kw):
        td_in = td.clone()
        passed_env = len(args) > 0 or kw.get("env", None) is not None
        if not passed_env and self.inject_env and self._env[0] is not None:
            kw = dict(kw)
            kw["env"] = self._env[0]
        out = self.policy(td, *args, **kw)
        rec = {"td": td_in, "kw": {k: v for k, v in kw.items() if k != "env" and not callable(v)},
               "env_passed": passed_env,
               "out": {k: (v.detach().clone() if isinstance(v, torch.Tensor) else v)
                       for k, v in out.items()}}
        self.calls.append(rec)
        return out


@contextlib.contextmanager
def inference():
    with torch.inference_mode():
        yield
