"""Entry point (run as a script, never with -m, so the package is imported once)."""
import os
import sys

HERE = os.path.dirname(os.path.abspath(__file__))
ROOT = os.path.dirname(HERE)


def _reexec():
    if os.environ.get("PYTHONHASHSEED") != "0" and not os.environ.get("RLSIM_NO_REEXEC"):
        env = dict(os.environ)
        env["PYTHONHASHSEED"] = "0"
        env.setdefault("OMP_NUM_THREADS", "1")
        env.setdefault("MKL_NUM_THREADS", "1")
        os.execve(sys.executable, [sys.executable] + sys.argv, env)


if __name__ == "__main__":
    _reexec()
    sys.path[:] = [p for p in sys.path if os.path.abspath(p or ".") != HERE]
    sys.path.insert(0, ROOT)
    sys.path.insert(0, os.path.abspath(os.environ.get("RLSIM_REPO", "/repo")))
    from rlsim.runner import main

    sys.exit(main())
