"""Storage seams and small factories for the data / persistence checks (C17, C19).

* ``SimFS`` / ``SimFile``: an in-memory file system.  ``np.savez``, ``np.load``, ``torch.load`` and
  ``load_from_checkpoint`` accept file-like objects, so round trips can run without touching a
  disk; a *crash* is "drop every Python object, keep the SimFS".  Storage faults (short / torn /
  bit-flipped files) are applied to the committed bytes.
* ``RunDir``: per-run temp directory under /tmp for the APIs that need real paths
  (``generate_dataset``, ``FJSPFileGenerator(file_path)``, ``Trainer.save_checkpoint``); removed at
  run end.
* ``shuffled_listdir``: ``os.listdir`` returns a seeded permutation (any order is legal for a real
  file system).
* tiny model factory: attention-model policy with embed_dim 32 / 1 layer, REINFORCE module, Trainer.
"""
from __future__ import annotations

import contextlib
import io
import os
import random
import shutil
import tempfile

from .kernel import H, HarnessError


# ------------------------------------------------------------------------------------------------
# in-memory files
# ------------------------------------------------------------------------------------------------
class SimFile(io.BytesIO):
    """File object living in a SimFS.  Writable files commit their bytes to the SimFS on flush_to_fs()
    or close(); np.savez does not close a file object it was handed, so the scenario commits."""

    def __init__(self, fs: "SimFS", name: str, mode: str = "rb"):
        if "r" in mode and "+" not in mode:
            if name not in fs.files:
                raise FileNotFoundError(name)
            super().__init__(fs.files[name])
        else:
            super().__init__()
        self._fs = fs
        self.name_in_fs = name
        self._writable = "w" in mode or "a" in mode or "+" in mode

    def flush_to_fs(self):
        if self._writable:
            self._fs.files[self.name_in_fs] = self.getvalue()

    def close(self):
        if not self.closed:
            self.flush_to_fs()
        super().close()


class SimFS:
    def __init__(self):
        self.files = {}

    def open(self, name: str, mode: str = "rb") -> SimFile:
        return SimFile(self, name, mode)

    def exists(self, name):
        return name in self.files

    def size(self, name):
        return len(self.files[name])

    def put(self, name, data: bytes):
        self.files[name] = bytes(data)

    def get(self, name) -> bytes:
        return self.files[name]

    def import_path(self, name, path):
        with open(path, "rb") as f:
            self.files[name] = f.read()

    def export_path(self, name, path):
        with open(path, "wb") as f:
            f.write(self.files[name])

    # -- storage faults (observational mode only) -------------------------------------------------
    def corrupt(self, name: str, kind: str, rng: random.Random) -> dict:
        """Damage the committed bytes of a file.  Returns a JSON-able description."""
        data = bytearray(self.files[name])
        n = len(data)
        if n == 0:
            return {"kind": kind, "noop": True}
        if kind == "short":          # the tail never reached the disk
            cut = rng.randrange(0, n)
            del data[cut:]
            info = {"kind": kind, "kept": cut, "of": n}
        elif kind == "torn":         # a block in the middle was not written (zeros)
            a = rng.randrange(0, n)
            b = min(n, a + rng.choice([1, 16, 64, 512]))
            data[a:b] = bytes(b - a)
            info = {"kind": kind, "from": a, "to": b, "of": n}
        elif kind == "bitflip":
            pos = rng.randrange(0, n)
            bit = rng.randrange(8)
            data[pos] ^= 1 << bit
            info = {"kind": kind, "byte": pos, "bit": bit, "of": n}
        else:
            raise HarnessError(f"unknown storage fault {kind}")
        self.files[name] = bytes(data)
        return info


# ------------------------------------------------------------------------------------------------
# real paths
# ------------------------------------------------------------------------------------------------
class RunDir:
    """Per-run temp dir outside /repo and /verif, removed at exit."""

    def __init__(self, tag="run"):
        self.tag = tag
        self.path = None

    def __enter__(self):
        self.path = tempfile.mkdtemp(prefix=f"rlsim-{self.tag}-", dir="/tmp")
        return self

    def __exit__(self, *exc):
        shutil.rmtree(self.path, ignore_errors=True)
        return False

    def join(self, *parts):
        return os.path.join(self.path, *parts)


@contextlib.contextmanager
def shuffled_listdir(seed: int, on_fire=None):
    """os.listdir returns a seeded permutation of the (sorted) real listing."""
    orig = os.listdir
    calls = [0]

    def listdir(path="."):
        names = sorted(orig(path))
        rng = random.Random(H(seed, "listdir", calls[0]))
        calls[0] += 1
        before = list(names)
        rng.shuffle(names)
        if on_fire is not None and len(names) > 1:
            on_fire(names != before)
        return names

    os.listdir = listdir
    try:
        yield calls
    finally:
        os.listdir = orig


@contextlib.contextmanager
def chdir(path):
    old = os.getcwd()
    os.chdir(path)
    try:
        yield
    finally:
        os.chdir(old)


# ------------------------------------------------------------------------------------------------
# tiny models
# ------------------------------------------------------------------------------------------------
EMBED = 32


def tiny_policy(env_name: str, seed: int, embed_dim: int = EMBED):
    """Attention model with one encoder layer; parameters drawn from `seed`."""
    import torch

    from rl4co.models import AttentionModelPolicy

    torch.manual_seed(seed)
    return AttentionModelPolicy(env_name=env_name, embed_dim=embed_dim, num_encoder_layers=1,
                                num_heads=2, feedforward_hidden=embed_dim)


def perturb_policy(policy, seed: int, scale: float = 0.3):
    """Stand-in for some optimiser steps: seeded noise on every parameter."""
    import torch

    g = torch.Generator().manual_seed(seed)
    with torch.no_grad():
        for p in policy.parameters():
            p.add_(torch.randn(p.shape, generator=g) * scale * (p.abs().mean() + 1e-3))


def tiny_critic_baseline(policy, embed_dim: int = EMBED):
    import copy

    from rl4co.models.rl.common.critic import CriticNetwork
    from rl4co.models.rl.reinforce.baselines import CriticBaseline

    return CriticBaseline(CriticNetwork(copy.deepcopy(policy.encoder), embed_dim=embed_dim,
                                        hidden_dim=embed_dim))


def tiny_reinforce(env, policy, baseline, **kw):
    from rl4co.models.rl import REINFORCE

    args = dict(batch_size=4, train_data_size=8, val_data_size=4, test_data_size=2,
                optimizer_kwargs={"lr": 1e-2})
    args.update(kw)
    return REINFORCE(env, policy, baseline=baseline, **args)


def tiny_trainer(root_dir: str, max_epochs: int, rl4co_trainer: bool = False):
    """CPU trainer without logger / checkpoint callback / progress bar; dataloaders are reloaded every
    epoch (what RL4COTrainer does by default, and what the regenerated + re-wrapped training set of
    REINFORCE needs)."""
    common = dict(max_epochs=max_epochs, accelerator="cpu", logger=False, enable_checkpointing=False,
                  enable_progress_bar=False, enable_model_summary=False, num_sanity_val_steps=0,
                  default_root_dir=root_dir)
    if rl4co_trainer:
        from rl4co.utils.trainer import RL4COTrainer

        # matmul_precision / profiling-executor switches are process-global: leave them alone so that a
        # run does not depend on what ran before it in the same worker
        return RL4COTrainer(devices=1, precision="32-true", matmul_precision=None,
                            disable_profiling_executor=False, **common)
    import lightning as L

    return L.Trainer(reload_dataloaders_every_n_epochs=1, **common)


def greedy(policy, env, td_batch):
    """Greedy rollout of a policy on a fresh batch -> (actions list, rewards list)."""
    import torch

    policy.eval()
    with torch.inference_mode():
        out = policy(env.reset(td_batch.clone()), env, decode_type="greedy")
    return out["actions"].tolist(), [float(x) for x in out["reward"].flatten().tolist()]
