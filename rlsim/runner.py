"""Batch runner: deals runs to forked workers, collects digests / stats / violations, matches known
findings, minimises, writes replays and evidence, prints the interface lines."""
from __future__ import annotations

import argparse
import faulthandler
import importlib
import json
import multiprocessing
import os
import subprocess
import sys
import time
import traceback
from collections import Counter
from concurrent.futures import ProcessPoolExecutor, wait, FIRST_COMPLETED

from .kernel import H, HarnessError, Run, StopRun, Violation, VERIF_ROOT, _json_default

REGISTRY = {
    "C01": "rlsim.scn.episodes:C01",
    "C02": "rlsim.scn.episodes:C02",
    "C03": "rlsim.scn.episodes:C03",
    "C04": "rlsim.scn.batchmates:C04",
    "C05": "rlsim.scn.reach:C05",
    "C06": "rlsim.scn.checker:C06",
    "C07": "rlsim.scn.sched:C07",
    "C08": "rlsim.scn.select:C08",
    "C09": "rlsim.scn.improve:C09",
    "C10": "rlsim.scn.decode:C10",
    "C11": "rlsim.scn.loglik:C11",
    "C12": "rlsim.scn.replicate:C12",
    "C13": "rlsim.scn.beam:C13",
    "C14": "rlsim.scn.inference:C14",
    "C15": "rlsim.scn.evalaug:C15",
    "C16": "rlsim.scn.training:C16",
    "C17": "rlsim.scn.data:C17",
    "C18": "rlsim.scn.generators:C18",
    "C19": "rlsim.scn.persist:C19",
    "C20": "rlsim.scn.stats:C20",
}

RUN_WATCHDOG_S = 900  # a single run: far above the guard timeout (kernel.GUARD_TIMEOUT_S = 300 s per library call)
DEFAULT_BUDGET = {"quick": 40.0, "thorough": 600.0}


def load_scenario(prop):
    mod, _, attr = REGISTRY[prop].partition(":")
    m = importlib.import_module(mod)
    return getattr(m, attr)


def _setup_torch():
    import torch

    torch.set_num_threads(1)
    try:
        torch.set_num_interop_threads(1)
    except RuntimeError:
        pass
    import logging
    import warnings

    warnings.filterwarnings("ignore")
    logging.disable(logging.CRITICAL)


def execute_plan(scn, prop, plan, trace=None):
    """One simulated run.  Returns the Run.  Harness errors propagate."""
    import torch

    run = Run(prop, plan, trace)
    torch.manual_seed(run.streams.torch_seed())
    try:
        scn.execute(run)
    except StopRun:
        pass
    return run


def _run_one(prop, seed, tier, idx, minimise=True):
    scn = load_scenario(prop)
    run_seed = H(seed, prop, idx)
    plan = scn.make_plan(run_seed, tier)
    plan["run_seed"] = run_seed
    plan["idx"] = idx
    run = execute_plan(scn, prop, plan)
    res = {
        "idx": idx,
        "digest": run.log.digest(),
        "stats": dict(run.stats),
        "states": list(run.states),
        "nontrivial": bool(run.nontrivial),
        "violations": [],
    }
    if idx < 3 or run.violations:
        res["sample"] = _sample(scn, run)
    seen = set()
    for v in run.violations:
        if v.klass() in seen:
            continue
        seen.add(v.klass())
        res["violations"].append(
            {"violation": v.to_json(), "plan": plan, "trace": list(run.chooser.trace),
             "digest": run.log.digest()}
        )
    return res


def _sample(scn, run):
    try:
        s = scn.sample(run)
    except Exception:  # noqa: BLE001
        s = {"plan": run.plan}
    return json.loads(json.dumps(s, default=_json_default))


def _worker_chunk(prop, seed, tier, indices):
    _setup_torch()
    out = []
    for idx in indices:
        faulthandler.dump_traceback_later(RUN_WATCHDOG_S, exit=True)
        try:
            out.append(_run_one(prop, seed, tier, idx))
        except Exception as e:  # noqa: BLE001  harness error
            out.append({"idx": idx, "harness_error": "".join(traceback.format_exception(e))[-6000:]})
        finally:
            faulthandler.cancel_dump_traceback_later()
    return out


# ------------------------------------------------------------------------------------------------
# known findings
# ------------------------------------------------------------------------------------------------

def load_known():
    p = os.path.join(VERIF_ROOT, "known_findings.json")
    if not os.path.exists(p):
        return []
    with open(p) as f:
        return json.load(f).get("findings", [])


def match_known(known, vj):
    import fnmatch

    for k in known:
        if k["property"] != vj["property"]:
            continue
        if not fnmatch.fnmatchcase(vj["scope"], k.get("scope", "*")):
            continue
        if not fnmatch.fnmatchcase(vj["monitor"], k.get("monitor", "*")):
            continue
        pred = k.get("predicate", "True")
        try:
            env = dict(vj["detail"])
            env["detail"] = vj["detail"]
            ok = bool(eval(pred, {"__builtins__": {"len": len, "min": min, "max": max, "abs": abs,
                                                  "any": any, "all": all, "str": str, "int": int}}, env))
        except Exception:  # noqa: BLE001  predicate refers to a key this record lacks -> no match
            ok = False
        if ok:
            return k
    return None


# ------------------------------------------------------------------------------------------------
# minimisation
# ------------------------------------------------------------------------------------------------

def same_class(run, klass):
    for v in run.violations:
        if v.klass() == klass:
            return v
    return None


def minimise(scn, prop, plan, trace, klass, budget=120, wall=60.0):
    """Greedy delta debugging over the scenario's shrink candidates and the choice trace."""
    t0 = time.time()
    best_plan, best_trace = plan, list(trace)
    execs = 0

    def attempt(p, t):
        nonlocal execs
        execs += 1
        try:
            r = execute_plan(scn, prop, p, t)
        except Exception:  # noqa: BLE001 a shrunk plan may be ill-formed -> reject it
            return None
        v = same_class(r, klass)
        return (r, v) if v is not None else None

    improved = True
    while improved and execs < budget and time.time() - t0 < wall:
        improved = False
        cands = []
        if hasattr(scn, "shrink"):
            try:
                cands = list(scn.shrink(best_plan))
            except Exception:  # noqa: BLE001
                cands = []
        for cand in cands:
            if execs >= budget or time.time() - t0 > wall:
                break
            got = attempt(cand, best_trace)
            if got:
                best_plan = cand
                improved = True
                break
        if improved:
            continue
        # trace shrinking: zero a block of choices, halve block size
        n = len(best_trace)
        block = max(1, n // 2)
        while block >= 1 and execs < budget and time.time() - t0 < wall:
            i = 0
            changed = False
            while i < n and execs < budget:
                if any(best_trace[i:i + block]):
                    t = best_trace[:i] + [0] * len(best_trace[i:i + block]) + best_trace[i + block:]
                    if attempt(best_plan, t):
                        best_trace = t
                        changed = True
                i += block
            if block == 1:
                break
            block //= 2
            improved = improved or changed
        # the trace loop itself is a fixpoint after one sweep
        improved = False
    r = execute_plan(scn, prop, best_plan, best_trace)
    v = same_class(r, klass)
    if v is None:  # should not happen (determinism); fall back to the original
        return plan, list(trace), None, execs, None
    return best_plan, list(r.chooser.trace)[: max(len(best_trace), r.chooser.pos)], v, execs, r.log.digest()


# ------------------------------------------------------------------------------------------------
# main
# ------------------------------------------------------------------------------------------------

REPLAY_SUBDIR = None
_KEEP = []


def write_replay(prop, rec, tag=""):
    d = os.path.join(VERIF_ROOT, "replays", prop)
    if REPLAY_SUBDIR:
        d = os.path.join(d, REPLAY_SUBDIR)
    os.makedirs(d, exist_ok=True)
    v = rec["violation"]
    klass = H(v["monitor"], v.get("detail", {}).get("constraint", "")) % 100000
    name = f"{v['scope']}-{rec['plan'].get('run_seed', 0)}-{klass:05d}-{rec.get('digest', '')[:8]}{tag}.json"
    name = name.replace("/", "_").replace(":", "_")
    p = os.path.join(d, name)
    with open(p, "w") as f:
        json.dump(rec, f, default=_json_default)
    return p


def cmd_replay(prop, path):
    _setup_torch()
    scn = load_scenario(prop)
    with open(path) as f:
        rec = json.load(f)
    run = execute_plan(scn, prop, rec["plan"], rec.get("trace"))
    want = Violation.from_json(rec["violation"]).klass() if rec.get("violation") else None
    hit = False
    for v in run.violations:
        print(f"replayed: {v!r}")
        if want is None or v.klass() == tuple(want):
            hit = True
    print(f"digest={run.log.digest()} recorded={rec.get('digest')}")
    if hit:
        print(f"VIOLATION property={prop} replay={path}")
        return 1
    print("replay did not reproduce the recorded violation")
    return 0


def cmd_digests(prop, seed, tier, indices):
    _setup_torch()
    out = {}
    for idx in indices:
        r = _run_one(prop, seed, tier, idx, minimise=False)
        out[str(idx)] = r["digest"]
    print("DIGESTS " + json.dumps(out))
    return 0


def determinism_sample(prop, seed, tier, digests, k):
    """Re-run k of the executed runs in a fresh interpreter under another PYTHONHASHSEED and
    torch thread count; digests must match."""
    idxs = sorted(digests)[:: max(1, len(digests) // k)][:k]
    if not idxs:
        return {"checked": 0, "mismatch": []}
    env = dict(os.environ)
    env["PYTHONHASHSEED"] = "12345"
    env["RLSIM_NO_REEXEC"] = "1"
    env["OMP_NUM_THREADS"] = "2"
    cmd = [sys.executable, os.path.join(VERIF_ROOT, "rlsim", "main.py"), prop, "--tier", tier,
           "--seed", str(seed), "--digests", ",".join(map(str, idxs))]
    p = subprocess.run(cmd, env=env, capture_output=True, text=True, timeout=600, cwd=VERIF_ROOT)
    line = [ln for ln in p.stdout.splitlines() if ln.startswith("DIGESTS ")]
    if p.returncode != 0 or not line:
        raise HarnessError(f"determinism subprocess failed: rc={p.returncode}\n{p.stdout[-2000:]}\n{p.stderr[-3000:]}")
    got = json.loads(line[0][8:])
    mism = [i for i in idxs if got.get(str(i)) != digests[i]]
    return {"checked": len(idxs), "mismatch": mism}


def cmd_check(prop, tier, seed, runs_cap, budget, workers, det_k, write_evidence=True, canary=None):
    t0 = time.time()
    scn = load_scenario(prop)
    _setup_torch()
    if canary:
        # sensitivity self-test: an in-memory mutant of rl4co (never applied to /repo) is installed
        # before the workers fork; the check is expected to report a violation (exit 1)
        cm = scn.CANARIES[canary]()
        cm.__enter__()
        write_evidence = False
        det_k = 0
        global REPLAY_SUBDIR
        REPLAY_SUBDIR = "canary-" + canary
    if hasattr(scn, "prepare"):
        scn.prepare()
    known = load_known()
    ctx = multiprocessing.get_context("fork")
    results = {}
    harness_errors = []
    chunk = getattr(scn, "chunk", 4)
    next_idx = 0
    pending = set()
    t_budget0 = time.time()  # the budget clock starts after imports / prepare (slow on a loaded machine)
    with ProcessPoolExecutor(max_workers=workers, mp_context=ctx) as ex:
        try:
            while True:
                while (len(pending) < workers * 2 and (runs_cap is None or next_idx < runs_cap)
                       and (runs_cap is not None or next_idx == 0 or time.time() - t_budget0 < budget)
                       and not harness_errors):
                    hi = next_idx + chunk if runs_cap is None else min(runs_cap, next_idx + chunk)
                    idxs = list(range(next_idx, hi))
                    next_idx = hi
                    pending.add(ex.submit(_worker_chunk, prop, seed, tier, idxs))
                if not pending:
                    break
                done, pending = wait(pending, return_when=FIRST_COMPLETED)
                for fut in done:
                    for r in fut.result():
                        if "harness_error" in r:
                            harness_errors.append(r)
                        else:
                            results[r["idx"]] = r
        except Exception as e:  # noqa: BLE001 BrokenProcessPool etc.
            harness_errors.append({"idx": -1, "harness_error": "".join(traceback.format_exception(e))[-4000:]})
            for f in pending:
                f.cancel()
    if harness_errors:
        for he in harness_errors[:3]:
            print(f"HARNESS-ERROR run={he['idx']}\n{he['harness_error']}", file=sys.stderr)
        print(f"harness error in {len(harness_errors)} run(s); nothing reported", file=sys.stderr)
        return 2
    if not results:
        print("no run completed", file=sys.stderr)
        return 2

    # ---- aggregate -----------------------------------------------------------------------------
    stats = Counter()
    states = set()
    digests = {}
    nontrivial_digests = set()
    for idx, r in results.items():
        stats.update(r["stats"])
        states.update(r["states"])
        digests[idx] = r["digest"]
        if r["nontrivial"]:
            nontrivial_digests.add(r["digest"])
    samples = [results[i]["sample"] for i in sorted(results) if "sample" in results[i]][:3]

    # ---- determinism sample ----------------------------------------------------------------------
    det = {"checked": 0, "mismatch": []}
    if det_k > 0:
        det = determinism_sample(prop, seed, tier, digests, det_k)
        if det["mismatch"]:
            print(f"HARNESS-ERROR nondeterministic runs {det['mismatch']}", file=sys.stderr)
            return 2

    # ---- violations ------------------------------------------------------------------------------
    by_class = {}
    for idx in sorted(results):
        for rec in results[idx]["violations"]:
            k = tuple(Violation.from_json(rec["violation"]).klass())
            by_class.setdefault(k, []).append(rec)
    known_hits = Counter()
    known_what = {}
    unlisted = []
    for k, recs in by_class.items():
        not_known = []
        for rec in recs:
            m = match_known(known, rec["violation"])
            if m is not None:
                known_hits[m["id"]] += 1
                known_what[m["id"]] = m
            else:
                not_known.append(rec)
        if not_known:
            unlisted.append((k, not_known))
    for kid, n in sorted(known_hits.items()):
        m = known_what[kid]
        print(f"KNOWN-FINDING: property={m['property']} {kid}: {m['what']} (hit in {n} run(s))")
    n_viol = 0
    t_min0 = time.time()
    for k, recs in unlisted:
        rec = recs[0]
        n_viol += 1
        raw_path = write_replay(prop, rec, tag="-raw")
        path = raw_path
        if time.time() - t_min0 < 240:
            try:
                mp, mt, mv, execs, mdigest = minimise(scn, prop, rec["plan"], rec["trace"], k)
                if mv is not None:
                    # a minimised replay must itself not be a known finding
                    mrec = {"violation": mv.to_json(), "plan": mp, "trace": mt,
                            "digest": mdigest, "raw_digest": rec["digest"], "minimised": True,
                            "minimise_execs": execs,
                            "raw": os.path.basename(raw_path)}
                    if match_known(known, mrec["violation"]) is None:
                        path = write_replay(prop, mrec, tag="-min")
            except Exception as e:  # noqa: BLE001
                print(f"(minimisation failed: {e!r}; raw replay kept)", file=sys.stderr)
        v = rec["violation"]
        print(f"violation: {v['scope']} {v['monitor']}: {v['message']} [{len(recs)} run(s)]")
        print(f"VIOLATION property={prop} replay={path}")

    # ---- evidence --------------------------------------------------------------------------------
    wall = time.time() - t0
    n = len(results)
    cov = {
        "evaluations": n,
        "distinct_nontrivial": len(nontrivial_digests),
        "rule": scn.rule,
        "samples": samples,
        "runs_per_hour": int(n / max(wall, 1e-9) * 3600),
        "seeds": {"VERIF_SEED": seed, "run_index_range": [0, max(results) + 1],
                  "run_seed": "blake2b(VERIF_SEED, property, run_index)"},
        "sim_ticks": stats.get("ticks", 0),
        "sim_time_units": stats.get("time_units", 0),
        "fault_counts_fired": {k[6:]: v for k, v in sorted(stats.items()) if k.startswith("fault:")},
        "probe_hits": {k[6:]: v for k, v in sorted(stats.items()) if k.startswith("probe:")},
        "other_counts": {k: v for k, v in sorted(stats.items())
                         if not k.startswith(("fault:", "probe:")) and k not in ("ticks", "time_units")},
        "distinct_event_logs": len(set(digests.values())),
        "distinct_abstract_states": len(states),
        "components_real": scn.components_real,
        "components_stub": scn.components_stub,
        "excluded_combinations": getattr(scn, "excluded", []),
        "determinism_sample": det,
        "known_findings_hit": dict(known_hits),
        "workers": workers,
    }
    ev = {
        "property_id": prop,
        "tier": tier,
        "seed": seed,
        "level": getattr(scn, "level", "exploration"),
        "coverage": cov,
        "assumptions": scn.assumptions,
        "wall_s": round(wall, 2),
        "violations": n_viol,
    }
    if write_evidence and not os.environ.get("RLSIM_NO_EVIDENCE"):
        os.makedirs(os.path.join(VERIF_ROOT, "evidence"), exist_ok=True)
        with open(os.path.join(VERIF_ROOT, "evidence", f"{prop}.json"), "w") as f:
            json.dump(ev, f, indent=1, default=_json_default)
    zero_probes = [k for k in getattr(scn, "required_probes", []) if stats.get("probe:" + k, 0) == 0]
    print(f"{prop} tier={tier} seed={seed} runs={n} nontrivial-distinct={len(nontrivial_digests)} "
          f"ticks={stats.get('ticks', 0)} wall={wall:.1f}s violations={n_viol} "
          f"known={sum(known_hits.values())} det={det['checked']}ok"
          + (f" ZERO-PROBES={zero_probes}" if zero_probes else ""))
    return 1 if n_viol else 0


def main(argv=None):
    ap = argparse.ArgumentParser(prog="check")
    ap.add_argument("prop")
    ap.add_argument("--tier", default=os.environ.get("VERIF_TIER", "quick"), choices=["quick", "thorough"])
    ap.add_argument("--seed", type=int, default=int(os.environ.get("VERIF_SEED", "0") or 0))
    ap.add_argument("--runs", type=int, default=None)
    ap.add_argument("--budget", type=float, default=None)
    ap.add_argument("--workers", type=int, default=int(os.environ.get("VERIF_WORKERS", "16")))
    ap.add_argument("--replay", default=None)
    ap.add_argument("--digests", default=None)
    ap.add_argument("--det", type=int, default=None)
    ap.add_argument("--idx", type=int, default=None, help="execute one run index in-process (debugging)")
    ap.add_argument("--canary", default=None, help="install the named in-memory mutant (self-test)")
    ap.add_argument("--list-canaries", action="store_true")
    a = ap.parse_args(argv)
    if a.prop == "selftest":
        # import + determinism smoke test used by setup_cmd
        rc = cmd_check("C04", "quick", 0, 16, 30.0, min(a.workers, 4), 4, write_evidence=False)
        return 0 if rc in (0, 1) else rc
    if a.prop not in REGISTRY:
        print(f"unknown property {a.prop}", file=sys.stderr)
        return 2
    if a.list_canaries:
        print("\n".join(sorted(getattr(load_scenario(a.prop), "CANARIES", {}))))
        return 0
    if a.idx is not None:
        _setup_torch()
        r = _run_one(a.prop, a.seed, a.tier, a.idx)
        for rec in r["violations"]:
            v = rec["violation"]
            print(f"violation: {v['scope']} {v['monitor']}: {v['message']}")
            print("detail:", json.dumps({k: x for k, x in v["detail"].items() if k not in ("cfg", "instance")},
                                        default=_json_default)[:3000])
            print("replay written:", write_replay(a.prop, rec, tag="-idx"))
        print(f"idx={a.idx} digest={r['digest']} violations={len(r['violations'])} stats={r['stats']}")
        return 1 if r["violations"] else 0
    if a.replay:
        if a.canary:  # replay a canary's file with the mutant installed (self-test of the self-test)
            _setup_torch()
            _KEEP.append(load_scenario(a.prop).CANARIES[a.canary]())  # keep alive: GC would undo it
            _KEEP[-1].__enter__()
        return cmd_replay(a.prop, a.replay)
    if a.digests:
        return cmd_digests(a.prop, a.seed, a.tier, [int(x) for x in a.digests.split(",")])
    budget = a.budget
    if budget is None:
        budget = float(os.environ.get("VERIF_BUDGET_S", DEFAULT_BUDGET[a.tier]))
    det_k = a.det if a.det is not None else (8 if a.tier == "quick" else 64)
    return cmd_check(a.prop, a.tier, a.seed, a.runs, budget, a.workers, det_k, canary=a.canary)
