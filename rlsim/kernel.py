"""Simulation kernel: seeded streams, event log, chooser (record/replay), violations.

One integer (run_seed) decides every choice of a run.  Nothing in here reads a clock or draws
from a PRNG for logging purposes.
"""
from __future__ import annotations

import contextlib
import hashlib
import json
import os
import random
import signal
import threading
import traceback
from collections import Counter

# RLSIM_REPO lets the machinery run against a scratch worktree of the repository (seeded-change sweeps);
# the registered checks always use /repo itself
REPO_ROOT = os.path.abspath(os.environ.get("RLSIM_REPO", "/repo"))
VERIF_ROOT = os.path.dirname(os.path.dirname(os.path.abspath(__file__)))


def H(*parts) -> int:
    """Stable 63-bit hash of JSON-able parts (independent of PYTHONHASHSEED)."""
    h = hashlib.blake2b(
        json.dumps(parts, sort_keys=True, default=str).encode(), digest_size=8
    ).digest()
    return int.from_bytes(h, "big") >> 1


class Streams:
    """Named PRNG sub-streams derived from one run seed."""

    def __init__(self, run_seed: int):
        self.run_seed = run_seed
        self._streams = {}

    def get(self, name: str) -> random.Random:
        if name not in self._streams:
            self._streams[name] = random.Random(H(self.run_seed, name))
        return self._streams[name]

    def torch_seed(self, name: str = "torch") -> int:
        return H(self.run_seed, "torch-seed", name) % (2**31 - 1)


class EventLog:
    def __init__(self):
        self.events = []
        self._h = hashlib.blake2b(digest_size=16)
        self.n = 0

    def add(self, *ev):
        self.n += 1
        self._h.update(json.dumps(ev, default=_json_default).encode())
        if len(self.events) < 400:
            self.events.append(ev)

    def digest(self) -> str:
        return self._h.hexdigest()


def _json_default(o):
    try:
        import torch

        if isinstance(o, torch.Tensor):
            return o.tolist()
    except Exception:
        pass
    try:
        import numpy as np

        if isinstance(o, np.generic):
            return o.item()
        if isinstance(o, np.ndarray):
            return o.tolist()
    except Exception:
        pass
    if isinstance(o, (set, frozenset)):
        return sorted(o)
    return str(o)


class HarnessError(Exception):
    """Something is wrong with the machinery, not with rl4co."""


class Violation:
    """A property violation observed on the real code."""

    def __init__(self, prop, scope, monitor, message, detail=None):
        self.prop = prop
        self.scope = scope
        self.monitor = monitor
        self.message = message
        self.detail = detail or {}

    def klass(self):
        return (self.prop, self.scope, self.monitor, self.detail.get("constraint", ""))

    def to_json(self):
        return {
            "property": self.prop,
            "scope": self.scope,
            "monitor": self.monitor,
            "message": self.message,
            "detail": json.loads(json.dumps(self.detail, default=_json_default)),
        }

    @staticmethod
    def from_json(d):
        return Violation(d["property"], d["scope"], d["monitor"], d["message"], d["detail"])

    def __repr__(self):
        return f"Violation({self.prop} {self.scope} {self.monitor}: {self.message})"


class StopRun(Exception):
    """Raised to abandon the rest of a run after a violation made it meaningless."""


class Chooser:
    """Every scheduling decision goes through here.

    record mode: the strategy (a callable using the schedule PRNG) proposes an index, which is
    appended to the trace.  replay mode: indices are read back from the trace (modulo the number of
    options, so that shrunk plans stay executable); when the trace is exhausted index 0 is used.
    """

    def __init__(self, rng: random.Random, trace=None):
        self.rng = rng
        self.replaying = trace is not None
        self.trace = list(trace) if trace is not None else []
        self.pos = 0

    def pick(self, n_options: int, suggest=None) -> int:
        if n_options <= 0:
            raise HarnessError("pick() from zero options")
        if self.replaying:
            if self.pos < len(self.trace):
                idx = self.trace[self.pos] % n_options
            else:
                idx = 0
            self.pos += 1
            return idx
        idx = suggest() if suggest is not None else self.rng.randrange(n_options)
        if not (0 <= idx < n_options):
            raise HarnessError(f"strategy proposed {idx} out of {n_options}")
        self.trace.append(idx)
        return idx


def innermost_project_frame(exc: BaseException):
    """Deepest traceback frame lying under /repo or /verif -> ('repo'|'verif'|None, file, func, line)."""
    frames = []
    tb = exc.__traceback__
    while tb is not None:
        code = tb.tb_frame.f_code
        if code.co_name == "_on_guard_timeout":
            pass  # the timer's handler runs on top of whatever was executing: that frame below it is what hangs
        elif not code.co_filename.startswith("<"):  # "<frozen posixpath>", "<string>": no file, not a project frame
            frames.append((os.path.abspath(code.co_filename), code.co_name,
                           getattr(code, "co_qualname", code.co_name), tb.tb_lineno))
        tb = tb.tb_next
    for fn, name, qual, lineno in reversed(frames):
        if fn.startswith(REPO_ROOT + "/"):
            return "repo", os.path.relpath(fn, REPO_ROOT), name, lineno
        if fn.startswith(VERIF_ROOT + "/"):
            # an in-memory canary mutant stands in for library code: its frames count as rl4co's
            if qual.startswith("_canary") or fn.endswith("canaries_env.py"):
                return "repo", "canary:" + os.path.relpath(fn, VERIF_ROOT), name, lineno
            return "verif", os.path.relpath(fn, VERIF_ROOT), name, lineno
    return None, None, None, None


class Run:
    """State of one simulated run."""

    def __init__(self, prop: str, plan: dict, trace=None):
        self.prop = prop
        self.plan = plan
        self.streams = Streams(plan["run_seed"])
        self.chooser = Chooser(self.streams.get("schedule"), trace)
        self.log = EventLog()
        self.stats = Counter()
        self.violations = []
        self.states = set()
        self.samples = []
        self.nontrivial = False

    # -- accounting -------------------------------------------------------------------------
    def fault(self, kind: str, *args):
        self.stats["fault:" + kind] += 1
        self.log.add("fault", kind, *args)

    def probe(self, name: str, n: int = 1):
        self.stats["probe:" + name] += n

    def tick(self, n: int = 1):
        self.stats["ticks"] += n

    def state(self, *abstract):
        if len(self.states) < 4096:
            self.states.add(H(*abstract))

    # -- violations -------------------------------------------------------------------------
    def violate(self, scope: str, monitor: str, message: str, **detail):
        v = Violation(self.prop, scope, monitor, message, detail)
        self.violations.append(v)
        self.log.add("violation", scope, monitor, message)
        return v

    @contextlib.contextmanager
    def guard(self, scope: str, what: str, promise: bool = True, **detail):
        """Run library code; an exception raised from inside /repo becomes a violation (when the
        property promises a result there), one raised from /verif stays a harness error.  A guarded call that
        does not return within GUARD_TIMEOUT_S (a loop inside rl4co that never ends) is interrupted by a timer
        signal; the resulting GuardTimeout is classified like any other exception, so a hang inside rl4co is a
        violation with a replay instead of a dead worker."""
        armed = False
        if threading.current_thread() is threading.main_thread() and hasattr(signal, "setitimer") \
                and signal.getitimer(signal.ITIMER_REAL)[0] == 0.0:
            signal.signal(signal.SIGALRM, _on_guard_timeout)
            # once a call has hung in this worker, later ones get a short leash (hangs come in series)
            signal.setitimer(signal.ITIMER_REAL, GUARD_TIMEOUT_S if not _TIMEOUTS_SEEN[0] else GUARD_TIMEOUT_AFTER_S)
            armed = True
        try:
            yield
        except (HarnessError, StopRun):
            raise
        except Exception as e:  # noqa: BLE001
            where, f, func, line = innermost_project_frame(e)
            if where == "repo" and promise:
                self.violate(
                    scope,
                    f"exception:{type(e).__name__}@{f}:{func}",
                    f"{what}: {type(e).__name__}: {str(e)[:300]}",
                    what=what,
                    exc_type=type(e).__name__,
                    exc_file=f,
                    exc_func=func,
                    **detail,
                )
                raise StopRun() from e
            if where == "repo":
                # the property promises no result for this call (setup of an excluded combination, an
                # interleaved throw-away call, ...): an exception raised by rl4co ends the run quietly
                self.probe(f"unpromised_exception:{type(e).__name__}@{f}:{func}")
                self.log.add("unpromised_exception", type(e).__name__, f, func)
                raise StopRun() from e
            raise
        finally:
            if armed:
                signal.setitimer(signal.ITIMER_REAL, 0.0)


class GuardTimeout(Exception):
    """a guarded library call did not return in time"""


GUARD_TIMEOUT_S = float(os.environ.get("RLSIM_GUARD_TIMEOUT_S", "300"))
GUARD_TIMEOUT_AFTER_S = 30.0
_TIMEOUTS_SEEN = [0]


def _on_guard_timeout(signum, frame):
    lim = GUARD_TIMEOUT_S if not _TIMEOUTS_SEEN[0] else GUARD_TIMEOUT_AFTER_S
    _TIMEOUTS_SEEN[0] += 1
    raise GuardTimeout(f"the call did not return within {lim:.0f} s")


@contextlib.contextmanager
def patched(obj, attr, new):
    """Temporarily replace obj.attr (canary mutants, seams)."""
    old = getattr(obj, attr)
    setattr(obj, attr, new)
    try:
        yield
    finally:
        setattr(obj, attr, old)
