"""Episode driving: action strategies (the adversarial scheduler) and the shared lock-step stepper."""
from __future__ import annotations

import torch

from . import envs as E
from .kernel import HarnessError

STRATEGIES = ["uniform", "lowest", "highest", "zero_eager", "zero_averse", "nearest", "farthest",
              "last_eager"]


def admitted(mask_row: torch.Tensor) -> list:
    return torch.nonzero(mask_row).flatten().tolist()


def _dists(td, i):
    """distance from the current node of row i to every node, when the env exposes coordinates."""
    try:
        if "locs" not in td.keys() or "current_node" not in td.keys():
            return None
        locs = td["locs"][i]
        cur = int(td["current_node"][i].flatten()[0])
        if locs.dim() != 2 or not (0 <= cur < locs.shape[0]):
            return None
        return (locs - locs[cur]).norm(dim=-1).tolist()
    except Exception:  # noqa: BLE001
        return None


def choose(run, strategy: str, td, i: int, opts: list) -> int:
    """Pick one admitted action for row i through the chooser (recorded / replayed)."""
    rng = run.chooser.rng

    def suggest():
        n = len(opts)
        if strategy == "lowest":
            return 0
        if strategy == "highest":
            return n - 1
        if strategy == "zero_eager":
            return 0 if opts[0] == 0 else rng.randrange(n)
        if strategy == "last_eager":
            return n - 1 if rng.random() < 0.7 else rng.randrange(n)
        if strategy == "zero_averse":
            if opts[0] == 0 and n > 1:
                return 1 + rng.randrange(n - 1)
            return rng.randrange(n)
        if strategy in ("nearest", "farthest"):
            d = _dists(td, i)
            if d is not None and max(opts) < len(d):
                cand = [(d[a], k) for k, a in enumerate(opts)]
                cand.sort()
                if rng.random() < 0.2:
                    return rng.randrange(n)
                return cand[0][1] if strategy == "nearest" else cand[-1][1]
            return rng.randrange(n)
        return rng.randrange(n)

    return opts[run.chooser.pick(len(opts), suggest)]


def mask_bits(mask_row: torch.Tensor) -> str:
    return "".join("1" if b else "0" for b in mask_row.tolist())


class Episode:
    """Result of driving one batch to completion."""

    def __init__(self):
        self.actions = []      # list over ticks of list over rows
        self.masks = []        # masks[t][i] = bit string offered to row i before tick t
        self.done_at = []      # finishing tick per row (number of steps taken when done first true)
        self.td = None
        self.aborted = None


def step_bound_generic(cfg, td) -> int:
    """A generous cap on episode length, only to keep runs bounded (the exact bound is C02's)."""
    w = td["action_mask"].shape[-1]
    return 6 * w + 60
