"""Trainer shims and taps for running rl4co Lightning modules' training steps without a Trainer.

Everything here is harness code (stub side of the simulation):

* ``FakeTrainer`` + ``shim(model)``: ``REINFORCE/POMO/SymNCO/A2C/PPO.shared_step(batch, i, "train")``,
  ``setup()`` and ``on_train_epoch_end()`` run outside Lightning's loop.  ``log_dict``/``log`` are
  swallowed, ``optimizers()`` returns the optimizer built by the model's own ``configure_optimizers``,
  ``manual_backward`` / ``clip_gradients`` are routed to callbacks so that a scenario can look at the
  loss tensor and at ``.grad`` before the optimizer moves.
* ``PolicyTap``: records every ``forward`` of a module (inputs' keyword arguments and the returned
  dictionary, tensors *not* detached so that reference surrogates can be built on the same graph).
  It is installed as a forward hook instead of a wrapping ``nn.Module``: rl4co does
  ``setattr(self.policy, "train_decode_type", ...)``, ``policy.encoder`` and ``copy.deepcopy(policy)``
  on the policy object, all of which a wrapper would have to forward; a hook leaves the object the
  model sees untouched.  The hook is a plain closure, so ``deepcopy(policy)`` (rollout baseline) copies
  the *reference* to it and the copy's forwards show up in the same record list, tagged with the
  identity of the module that ran.
* ``PoolGenerator``: a stand-in for ``env.generator`` that serves the plan's explicit instances
  round-robin, so that every dataset the model builds (``setup``, ``on_train_epoch_end``, rollout
  baseline evaluation set) consists of instances written in the replay file.
"""
from __future__ import annotations

import copy

import torch
import torch.nn as nn
from tensordict import TensorDict

from .kernel import HarnessError


# ------------------------------------------------------------------------------------------------
# policies
# ------------------------------------------------------------------------------------------------
def tiny_policy(env_name: str, kind: str = "am", normalization: str = "batch", **kw):
    """AttentionModelPolicy / SymNCOPolicy with embed_dim 32, one encoder layer."""
    common = dict(env_name=env_name, embed_dim=32, num_encoder_layers=1, num_heads=4,
                  feedforward_hidden=64, normalization=normalization)
    common.update(kw)
    if kind == "am":
        from rl4co.models.zoo.am import AttentionModelPolicy

        return AttentionModelPolicy(**common)
    if kind == "symnco":
        from rl4co.models.zoo.symnco.policy import SymNCOPolicy

        return SymNCOPolicy(**common)
    raise HarnessError(f"unknown policy kind {kind}")


def tiny_critic(policy, share_encoder: bool = False):
    """CriticNetwork on a copy of (or, share_encoder=True, on the very same) policy encoder."""
    from rl4co.models.rl.common.critic import CriticNetwork

    enc = policy.encoder if share_encoder else copy.deepcopy(policy.encoder)
    return CriticNetwork(enc, embed_dim=32, hidden_dim=32)


# ------------------------------------------------------------------------------------------------
# taps
# ------------------------------------------------------------------------------------------------
class PolicyTap:
    """Records every forward call of `module` (and of its deep copies)."""

    def __init__(self, module: nn.Module, name: str = "policy"):
        self.module = module
        self.name = name
        self.records = []
        self.enabled = True
        records = self.records
        main_id = id(module)
        tap = self

        def hook(mod, args, kwargs, output):  # plain closure: atomic for deepcopy
            if not tap.enabled:
                return None
            records.append({
                "main": id(mod) == main_id,
                "mod": mod,
                "args": args,
                "kwargs": {k: v for k, v in kwargs.items() if k != "env"},
                "out": output,
                "grad_enabled": torch.is_grad_enabled(),
                "inference": torch.is_inference_mode_enabled(),
                "training": bool(mod.training),
            })
            return None

        self.handle = module.register_forward_hook(hook, with_kwargs=True)

    def clear(self):
        del self.records[:]

    def main_records(self):
        return [r for r in self.records if r["main"]]

    def remove(self):
        self.handle.remove()


# ------------------------------------------------------------------------------------------------
# trainer shims
# ------------------------------------------------------------------------------------------------
class _Strategy:
    root_device = torch.device("cpu")


class FakeTrainer:
    """The few attributes rl4co's modules read from `self.trainer`."""

    def __init__(self, max_epochs: int = 1000):
        self.current_epoch = 0
        self.max_epochs = max_epochs
        self.loggers = []
        self.logger = None
        self.lr_scheduler_configs = []
        self.strategy = _Strategy()
        self.global_step = 0
        self.training = True
        self.sanity_checking = False
        self.barebones = True


class Shim:
    """Handle returned by shim(): where the callbacks and the optimizer live."""

    def __init__(self, model):
        self.model = model
        self.trainer = FakeTrainer()
        self.optimizer = None
        self.logged = []
        self.on_backward = None        # callable(loss) replacing loss.backward()
        self.on_clip = None            # callable(optimizer, clip_val, algorithm)
        self.n_backward = 0
        self.n_clip = 0

    def build_optimizer(self):
        """The model's own configure_optimizers (REINFORCE: all parameters; A2C: two groups;
        PPO: policy + critic)."""
        res = self.model.configure_optimizers()
        if isinstance(res, tuple):
            res = res[0]
        if isinstance(res, (list, tuple)):
            res = res[0]
        self.optimizer = res
        return res


def shim(model) -> Shim:
    sh = Shim(model)
    model._trainer = sh.trainer

    def log_dict(metrics, *a, **k):
        sh.logged.append(metrics)

    def log(name, value, *a, **k):
        sh.logged.append({name: value})

    def optimizers(*a, **k):
        if sh.optimizer is None:
            sh.build_optimizer()
        return sh.optimizer

    def manual_backward(loss, *a, **k):
        sh.n_backward += 1
        if sh.on_backward is not None:
            sh.on_backward(loss)
        else:
            loss.backward()

    def clip_gradients(optimizer, gradient_clip_val=None, gradient_clip_algorithm=None):
        sh.n_clip += 1
        if sh.on_clip is not None:
            sh.on_clip(optimizer, gradient_clip_val, gradient_clip_algorithm)
        elif gradient_clip_val is not None:
            params = [p for g in optimizer.param_groups for p in g["params"]]
            torch.nn.utils.clip_grad_norm_(params, gradient_clip_val)

    # instance attributes shadow the LightningModule methods
    object.__setattr__(model, "log_dict", log_dict)
    object.__setattr__(model, "log", log)
    object.__setattr__(model, "optimizers", optimizers)
    object.__setattr__(model, "manual_backward", manual_backward)
    object.__setattr__(model, "clip_gradients", clip_gradients)
    return sh


# ------------------------------------------------------------------------------------------------
# plan-fed generator
# ------------------------------------------------------------------------------------------------
class PoolGenerator:
    """Stand-in for env.generator: serves explicit instances (dicts of tensors) round-robin."""

    def __init__(self, rows: list, base=None):
        if not rows:
            raise HarnessError("empty instance pool")
        self.rows = rows
        self.cursor = 0
        self.served = 0
        self.base = base  # the real generator: environments read attributes off it (vehicle_capacity)

    def __getattr__(self, name):
        base = self.__dict__.get("base")
        if base is None or name.startswith("__"):
            raise AttributeError(name)
        return getattr(base, name)

    def __call__(self, batch_size):
        if isinstance(batch_size, (list, tuple, torch.Size)):
            n = 1
            for b in batch_size:
                n *= int(b)
        else:
            n = int(batch_size)
        out = []
        for _ in range(n):
            out.append(self.rows[self.cursor % len(self.rows)])
            self.cursor += 1
        self.served += n
        keys = list(out[0].keys())
        return TensorDict({k: torch.stack([r[k].clone() for r in out], 0) for k in keys},
                          batch_size=[n])


def policy_params(module: nn.Module):
    return [(n, p) for n, p in module.named_parameters() if p.requires_grad]


def reaches(tensor: torch.Tensor, params) -> bool:
    """Graph walk: is any of `params` (leaf tensors) reachable from tensor.grad_fn?"""
    if not isinstance(tensor, torch.Tensor) or not tensor.requires_grad:
        return False
    want = {id(p) for p in params}
    if tensor.grad_fn is None:
        return id(tensor) in want
    seen = set()
    stack = [tensor.grad_fn]
    while stack:
        fn = stack.pop()
        if fn is None or id(fn) in seen:
            continue
        seen.add(id(fn))
        var = getattr(fn, "variable", None)
        if var is not None and id(var) in want:
            return True
        for nxt, _ in fn.next_functions:
            if nxt is not None:
                stack.append(nxt)
    return False
