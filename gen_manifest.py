#!/usr/bin/env python3
"""Regenerates MANIFEST.json from the table below (kept as code so that it stays valid)."""
import json, os
HERE = os.path.dirname(os.path.abspath(__file__))

CHECKS = {
    "C01": dict(
        cat="exploration", ref="5/C01",
        text="Seeded search over instances x mask-admitted action schedules x perturbations for the 13 routing environments (MTVRP presets incl. all 16 variants): a float64 reference model of the problem runs alongside the real environment (refinement impl <= model, tick by tick); every admitted action taken must not be must_not for the reference and the final solution must have no problem-level violation. Sampled schedules with adversarial strategies; not exhaustive.",
        note="Trusted: reference models in rlsim/ref/routing.py (written from the problem definitions), float band tau=1e-5*max(1,scale). MDCPDP under its one-depot reading. Generator instances at small sizes; boundary (equality) instances are exercised by C05.",
        tech="deterministic simulation: seeded adversarial action scheduler + reference-model refinement check"),
    "C02": dict(
        cat="exploration", ref="5/C02",
        text="Lock-step batches of all 21 constructive environments with deliberately unequal finishing ticks, stalls (padding of finished rows), reindex, snapshot/restore, alternate episodes and env pickle/deepcopy mid-episode; invariants after every tick (every row has an admitted action while any row runs, done monotone), history check against the problem's step bound, plus rl4co's own rollout()/random_policy loop under max_steps = bound (never an all-masked row, never the safety cap).",
        note="Trusted: step bounds as stated by the property (reference step_bound()); EDA data are stubs; uniform quota per batch for selection envs. Dead ends that need a very specific instance remain sampled.",
        tech="deterministic simulation: seeded lock-step scheduler with stall/reindex/restart faults + per-tick invariants and bounded-liveness check"),
    "C03": dict(
        cat="exploration", ref="5/C03",
        text="Completed mask-confined episodes in every reward mode (mTSP minmax/sum, MDCPDP minmax/minsum/lateness x open/close x L1/L2, MTVRP open/closed, PCTSP/SPCTSP, SMTWTP, FJSP/JSSP/FFSP, FLP, MCP) in batches with unequal finishing ticks and snapshot/reindex/alternate perturbations; env.get_reward on the padded action matrix must equal the float64 objective recomputed from the original instance and the executed actions alone.",
        note="Trusted: reference objectives (rlsim/ref/*.py); tolerance 1e-5*max(1,|ref|)*sqrt(steps). DPP/MDPP decap-simulator rewards are not modelled (not listed by the property).",
        tech="deterministic simulation: seeded scheduler + independent objective oracle over recorded histories"),
    "C05": dict(
        cat="exploration", ref="5/C05",
        text="Model-driven schedules: for tiny instances (generator and exact-arithmetic boundary instances) the reference enumerates its own complete feasible solution set (exhaustive when <= 400/2000 sequences, seeded sample otherwise, brute-force optimum always); the real environment is driven along each solution in batches: every action must be admitted, done exactly at completion, optimum reward equal; at every visited state each must-action of the reference that is not a documented pruning must be offered.",
        note="Exhaustive over the reference's solution set per instance, sampled over instances; never enumerates the implementation's state space. Length/time-window equalities are observations only; capacity and prize equalities are obligations on boundary instances. FFSP only via C07.",
        tech="deterministic simulation: reference-model-generated schedules (model-trace) replayed on the real environment"),
    "C04": dict(
        cat="exploration", ref="5/C04",
        text="Seeded search over batch compositions, action schedules and perturbations: each instance is driven solo and inside scheduled batches (copies, strangers, other sizes/positions) with stalls of finished rows, mid-episode reindex/replicate, snapshot/restore and alternate episodes on the same env object; masks, finishing tick and reward must coincide. Sampled, not exhaustive.",
        note="Trusted: torch CPU kernels, the harness' bookkeeping of row identity through reindexing. Instances from the library's generators (small sizes dominate). EDA data files are stubs.",
        tech="deterministic simulation: seeded lock-step scheduler + solo-vs-batched history check"),
}

NOT_YET = {}
for i in range(1, 21):
    pid = f"C{i:02d}"
    if pid not in CHECKS:
        NOT_YET[pid] = "check under construction in this session (planned in DESIGN.md section 5); not claimed until its machinery is committed"

def main():
    checks = []
    for pid, c in sorted(CHECKS.items()):
        checks.append({
            "property_id": pid,
            "quick_cmd": f"./check {pid} --tier quick",
            "thorough_cmd": f"./check {pid} --tier thorough",
            "evidence_file": f"evidence/{pid}.json",
            "replay_cmd_template": f"./check {pid} --replay {{path}}",
            "engine": "rlsim",
            "level_claimed": {"category": c["cat"], "text": c["text"], "design_ref": c["ref"]},
            "level_note": c["note"],
            "technique": c["tech"],
        })
    man = {
        "version": 1,
        "setup_cmd": "/venv/bin/python -m compileall -q rlsim && ./check selftest",
        "hooks": {
            "guard": "RL4CO_VERIF",
            "enable": "no in-repo hooks: every seam is installed from /verif by monkeypatching at run time",
            "baseline_off_cmd": "cd /repo && /venv/bin/python -m pytest -ra -q -p no:cacheprovider --timeout=900 --continue-on-collection-errors",
            "source_commits": [],
            "add_only": True,
        },
        "engines": [{"name": "rlsim", "path": "rlsim/", "serves_properties": sorted(CHECKS),
                     "kind_free_text": "deterministic simulator: seeded scheduler over real rl4co code, reference models, replay + minimisation"}],
        "checks": checks,
        "not_applicable": [{"property_id": k, "reason": v} for k, v in sorted(NOT_YET.items())],
        "notes": "See DESIGN.md. ./check Cxx --tier quick|thorough [--runs N] [--budget S] [--replay FILE]; VERIF_SEED, VERIF_TIER, VERIF_BUDGET_S honoured.",
    }
    with open(os.path.join(HERE, "MANIFEST.json"), "w") as f:
        json.dump(man, f, indent=1)

if __name__ == "__main__":
    main()
