#!/usr/bin/env python3
"""Regenerates MANIFEST.json from the table below (kept as code so that it stays valid)."""
import json, os
HERE = os.path.dirname(os.path.abspath(__file__))

CHECKS = {
    "C01": dict(
        cat="exploration", ref="5/C01",
        text="Seeded search over instances x mask-admitted action schedules x perturbations for the 13 routing environments (MTVRP presets incl. all 16 variants): a float64 reference model of the problem runs alongside the real environment (refinement impl <= model, tick by tick); every admitted action taken must not be must_not for the reference and the final solution must have no problem-level violation. Sampled schedules with adversarial strategies; not exhaustive. 4% of the runs are MDCPDP with 2-5 depots on hand-supplied per-depot capacities, judged by reading-independent invariants only (customers once, pickup before delivery, orders on board <= capacity).",
        note="Trusted: reference models in rlsim/ref/routing.py (written from the problem definitions), float band tau=1e-5*max(1,scale). MDCPDP under its one-depot reading. Generator instances at small sizes; boundary (equality) instances are exercised by C05.",
        tech="deterministic simulation: seeded adversarial action scheduler + reference-model refinement check"),
    "C02": dict(
        cat="exploration", ref="5/C02",
        text="Lock-step batches of all 21 constructive environments with deliberately unequal finishing ticks, stalls (padding of finished rows), reindex, snapshot/restore, alternate episodes and env pickle/deepcopy mid-episode; invariants after every tick (every row has an admitted action while any row runs, done monotone), history check against the problem's step bound, plus rl4co's own rollout()/random_policy loop under max_steps = bound (never an all-masked row, never the safety cap).",
        note="Trusted: step bounds as stated by the property (reference step_bound()); EDA data are stubs; uniform quota per batch for selection envs. Dead ends that need a very specific instance remain sampled.",
        tech="deterministic simulation: seeded lock-step scheduler with stall/reindex/restart faults + per-tick invariants and bounded-liveness check"),
    "C03": dict(
        cat="exploration", ref="5/C03",
        text="Completed mask-confined episodes in every reward mode (mTSP minmax/sum, MDCPDP minmax/minsum/lateness x open/close x L1/L2, MTVRP open/closed, PCTSP/SPCTSP, SMTWTP, FJSP/JSSP/FFSP, FLP, MCP) in batches with unequal finishing ticks and snapshot/reindex/alternate perturbations; env.get_reward on the padded action matrix must equal the float64 objective recomputed from the original instance and the executed actions alone; it is asked twice on the finished state, once more on a freshly reset state of the same instances (environments whose objective is a function of instance and actions), and after 'overrun' ticks in which the whole batch is stepped on after its last row finished.",
        note="Trusted: reference objectives (rlsim/ref/*.py); tolerance 1e-5*max(1,|ref|)*sqrt(steps). DPP/MDPP decap-simulator rewards are not modelled (not listed by the property).",
        tech="deterministic simulation: seeded scheduler + independent objective oracle over recorded histories"),
    "C05": dict(
        cat="exploration", ref="5/C05",
        text="Model-driven schedules: for tiny instances (generator and exact-arithmetic boundary instances) the reference enumerates its own complete feasible solution set (exhaustive when <= 400/2000 sequences, seeded sample otherwise, brute-force optimum always); the real environment is driven along each solution in batches: every action must be admitted, done exactly at completion, optimum reward equal (a stranger instance sits at batch row 0 in half of the runs; hand-format instances with service durations; exact fills of k/Q demands are decided in integers for CVRP, CVRPTW and MTVRP); at every visited state each must-action of the reference that is not a documented pruning must be offered.",
        note="Exhaustive over the reference's solution set per instance, sampled over instances; never enumerates the implementation's state space. Length/time-window equalities are observations only; capacity and prize equalities are obligations on boundary instances, capacity equality also on generator instances (integer decision). FFSP in the weak form only: along seeded episodes every ready job and the documented wait are offered at every decision slot.",
        tech="deterministic simulation: reference-model-generated schedules (model-trace) replayed on the real environment"),
    "C06": dict(
        cat="fault_enumeration", ref="5/C06",
        text="Fault enumeration on recorded solutions: for a base solution (mask-driven episode or reference-built feasible solution, plus padded / no-final-depot shapes) every position x fault-kind single-fault corruption of the action list (drop, duplicate, swap, move, merge routes; for depot-less tours also delete a node / insert a revisit) and instance-side faults (raise demand, shrink window / length limit / skill, lower prize) is enumerated (capped by seeded sampling), each verdict asked once alone and once in a batch next to a companion instance / solution; the checker must accept what the independent problem definition accepts and raise for what it rejects beyond the float band. Covers tsp, atsp, cvrp, cvrptw (scaled/unscaled), sdvrp, svrp, op, pctsp, spctsp, pdp (both start modes), mtvrp presets, tsp_kopt and pdp_ruin_repair (successor-array corruptions). Batches of two mirrored corruptions of one solution (each infeasible alone) must be rejected as well.",
        note="Ground truth = rlsim/ref/routing.py violations() and successor-array validity; verdicts inside the band are skipped; any exception counts as rejection. Exhaustive per base solution up to the cap, sampled over instances and base solutions.",
        tech="deterministic simulation: seeded base histories + exhaustive single-fault injection with independent verdict oracle"),
    "C07": dict(
        cat="exploration", ref="5/C07",
        text="Lock-step batches of FJSP/JSSP (generator and file-loaded instances with shuffled os.listdir, mask_no_ops on/off, padded batches), FFSP (incl. machine-table multi-start) and SMTWTP (generator and integer benchmark-style instances incl. zero-length jobs) under wait-eager/averse strategies with stall, snapshot/restore, env pickle/deepcopy restart and alternate-episode perturbations; an independent event-driven dispatcher predicts clock, mask and done at every tick, and an independent validator judges the final schedule (each op once, eligible machine, exact duration, job order, no machine overlap, padded ops untouched, makespan).",
        note="Trusted: rlsim/ref/scheduling.py (independent dispatcher/validators). clock/slot/mask_hides monitors go beyond the literal statement (mechanism-level) and are kept under separate monitor names. JSSP file writer is a harness stub.",
        tech="deterministic simulation: seeded scheduler + second independent discrete-event simulator as oracle"),
    "C08": dict(
        cat="exploration", ref="5/C08",
        text="Episodes of FLP, MCP (zero-padded, duplicate-item and hand-built memberships), DPP and MDPP (stub PDN data, keep-out layouts from empty to free==quota) under all selection-order strategies with snapshot/restore, alternate episodes and env pickle/deepcopy mid-episode; per tick: actions distinct and allowed, mask == not chosen and allowed, done exactly at the quota (the configured max_decaps), bookkeeping (FLP distances, MCP weights/membership) equals the reference, reward equals the reference objective.",
        note="Uniform quota per batch; decap simulator neither modelled nor called; EDA data are stubs.",
        tech="deterministic simulation: seeded selection-order scheduler + reference bookkeeping model checked per tick"),
    "C09": dict(
        cat="exploration", ref="5/C09",
        text="Histories of 20-60 moves on TSPkoptEnv (k=2..6) and PDPRuinRepairEnv (4-10 nodes; one run in twelve 26-30 nodes with several customers at one address) from every mask-admitted move (scheduled), the environments' own random-move sampler, DACT/NeuOpt/N2S policies with random weights and step_to_solution, batch sizes incl. 1, snapshot right after improving moves (aliasing case), mirror batches and another episode reset and moved on the same environment object mid-episode; after every move: single cycle, PDP precedence, cost_current/cost_bsf equal recomputed lengths and the ledger minimum, cost_bsf monotone, reward = decrease, visited_time consistent, built-in checker accepts rec_best. A quarter of the episodes run in TorchRL mode (a move must leave the state it was taken from untouched); every row's move mask inside the batch equals the mask of the same state alone.",
        note="Trusted: rlsim/ref/improvement.py (list-based tours, ledger). k>=3 moves only from the sampler, NeuOpt and step_to_solution (the env has no move mask for k>2).",
        tech="deterministic simulation: seeded move scheduler + ledger/reference tour model checked after every move"),
    "C10": dict(
        cat="exploration", ref="5/C10",
        text="Real decoding loops (scripted decoder in five logit modes incl. ties/huge/flat, tiny real AM) over 19 real environments with a swarm over temperature, tanh clipping, top-k, top-p and decode types; a tap on process_logits checks every step against a float64 reference (normalised, masked => -inf, argmax kept, <= k kept up to ties, nucleus mass >= p, shift invariance by re-running the recorded step, greedy maximiser, sampled action has positive probability); the knobs the caller configured must be the ones process_logits receives at every step of the rollout; sampler faults (1-3 injected zero-probability draws) must be absorbed by the retry loop within one further clean draw; one run in eighty uses a 130-200 action space with a flat distribution (nucleus mass over all actions). A quarter of the scripted runs hand the scores over as a non-contiguous (transposed) view.",
        note="The 'for all real logits' algebra is a pure-function claim; the simulator reaches it only through the values flowing through simulated episodes and under sampler faults (thin for that sub-claim, stated in DESIGN 6). With top-k and top-p both active the nucleus clause is read against the top-k-restricted distribution.",
        tech="deterministic simulation: seeded decoding episodes with process_logits tap + sampler fault injection (bounded-liveness of the retry loop)"),
    "C11": dict(
        cat="exploration", ref="5/C11",
        text="Record/replay of decoding histories: 24 bundled policy x environment pairs (plus the scripted decoder on all 21 environments) in greedy, sampling, multistart, multi-sample and beam modes: (i) a tap on process_logits recomputes, in float64, the masked and normalised step distribution and the returned log-likelihood must be the sum of the log-probs of the actions actually taken, forced multi-start moves and steps flagged by td['mask'] contributing zero; (ii) feeding the returned actions back in evaluate mode (k-fold expanded batch without num_starts, or num_samples) reproduces per-step log-probs, reward and entropy; (iii) PPO's first inner-step probability ratio is 1 and each mini-batch row carries its own (action, old log-prob) pair; (iv) stepwise PPO for L2D (L2DPolicy4PPO.act/evaluate round trip under scheduled temperature/clipping, and the first-mini-batch ratio of every one of 2-3 consecutive StepwisePPO updates). The zoo includes a NonAutoregressivePolicy/Decoder behind a stub heatmap encoder. The pointer network also runs with mask_inner=False and tanh_clipping=0.",
        note="MDAM has no evaluate mode (clause (i) only); PolyNet only on slot-preserving replays; MatNet replayed under the same torch seed; top-k/top-p only without forced first moves. Tiny random-weight policies.",
        tech="deterministic simulation: recorded decoding histories replayed in evaluate mode + float64 reference distribution from a logits tap"),
    "C12": dict(
        cat="exploration", ref="5/C12",
        text="(a) batchify/unbatchify/unbatchify_and_gather on tensors and nested TensorDicts with factor lists (k), (a,s), (r,a,s): row r belongs to instance r mod B, expand-then-inverse is the identity; (b) multi-start / multi-sample rollouts through the real policy loop with the replica-keyed scripted decoder on every environment with a start rule (incl. cross-size environments and OP instances with unreachable customers): forced starts are feasible and pairwise distinct when k feasible starts exist, every row's trajectory equals the solo rollout of instance r mod B with replica r div B, best-of-k returns the instance's own maximum with the actions and log-likelihood of that rollout; (c) POMO / SymNCO shared_step regrouping never mixes instances; (d) real AttentionModel multistart vs solo replication; (e) the real non-autoregressive decoder on one policy object across calls with equal row count but different (B, k): every row reads its own instance's heatmap row; (f) rl4co's AntSystem search (DeepACO/GFACS inference) on a seeded heuristic matrix: the best reward and trail kept per instance across iterations are the instance's own best rollout. POMO also with num_augment=0 (no augmentation axis); the batched-vs-solo replica comparison also for L2D on FJSP/JSSP.",
        note="The reference loop re-derives at most 12 rows per run; FFSP trajectories are not re-derived (machine tables live on the environment).",
        tech="deterministic simulation: per-row reproducible scripted peer + solo re-derivation of replicated rollouts"),
    "C13": dict(
        cat="exploration", ref="5/C13",
        text="Beam search through the real policy loop (scripted state-keyed scorer, tiny real AM, real non-autoregressive decoder behind a stub heatmap encoder) on fixed- and variable-length environments, widths 2..n, select_best on/off: history check over the tapped step distributions and the strategy's beam_path: kept (parent, action) pairs are the top-w of parent score + step log-prob (near-ties indeterminate), returned sequences are root-to-leaf paths with the log-probs along that path, evaluate-mode replay reproduces them, every beam is a feasible complete solution (reference violations()), beams with distinct forced starts are distinct, select_best returns the instance's maximum. Half of the real-network searches run with autograd off; one run in 500 is a scale fault (stacked batch with (width-1) x batch above 2**15, sampled instances re-decoded in a small batch must give the same beams).",
        note="No full independent re-execution of beam search; induction over recorded steps + path check + evaluate replay. flp/mcp/mtsp/scheduling beams excluded (no independent feasibility oracle for beams).",
        tech="deterministic simulation: recorded beam histories checked against a reference beam step + evaluate replay"),
    "C14": dict(
        cat="exploration", ref="5/C14",
        text="28 policy x environment pairs in eval mode (AM x 12 envs, MVMoE, PointerNetwork, HAM, MDAM, PolyNet, SymNCO, MatNet with a row-keyed RNG seam, L2D, non-autoregressive decoder), greedy (and multistart-greedy) decoding: each instance solo (B=1) and inside scheduled compositions (subsets, permutations, duplicates, DataLoader chunking with non-dividing batch sizes, the same chunking through rl4co.tasks.eval.evaluate_policy); actions, reward and log-likelihood must coincide up to the selection-flip rule; a crash at B=1 is a violation.",
        note="CPU kernels only; tiny random-weight policies (embed 32); policies that do not construct offline are excluded and listed in evidence. MatNet's inference-time random embedding is made per-instance by the RNG seam.",
        tech="deterministic simulation: seeded batch-composition scheduler + solo-vs-batched inference history check"),
    "C15": dict(
        cat="exploration", ref="5/C15",
        text="(a) StateAugmentation (symmetric 2-16 copies, dihedral8, first_aug_identity on/off) on scheduled coordinate sets: per-copy distance matrices, copy 0 identity, equal cost of a scheduled action sequence on every copy; (b) evaluate_policy and the five *Eval classes with datasets of 1-23 instances, loader batch sizes that do and do not divide, num_starts/num_augment/samples: reported reward equals the reference objective of the reported actions on the original instance, is the maximum over the candidates a policy tap saw for that instance, and >= solo greedy where the identity candidate is included; (c) POMO / SymNCO test steps through shims: every candidate's score on its augmented copy equals the objective of its actions on the original instance, best-of-k outputs are the maximum and belong to the reported actions; (d) ActiveSearch / EASEmb / EASLay driven without a Trainer under a virtual clock (the simulator owns time.time(), incl. scheduled jumps past max_runtime): the incumbent kept across iterations is the maximum over all recorded rollouts, the stored solution is one of the rollouts attaining it and is worth that on the original instance.",
        note="Isometry is a pure-function sub-claim reached only on scheduled coordinate sets (thin). Tiny real AM only; environments tsp, cvrp, sdvrp, pdp, op, pctsp.",
        tech="deterministic simulation: seeded evaluation runs with policy tap + independent objective oracle"),
    "C16": dict(
        cat="exploration", ref="5/C16",
        text="Histories of 1-6 successive shared_step('train') calls with scheduled epoch callbacks for REINFORCE x {no, mean, exponential, rollout, warm-up mixtures, critic}, POMO, SymNCO, A2C and PPO (inner epochs, dividing and non-dividing mini-batches) outside a Trainer via shims: reported loss equals the float64 reference surrogate recomputed from the recorded rollout, baseline values follow the reference state (EMA, warm-up alpha, critic, extra), rewards/baseline values have no gradient path to the policy, shared advantages sum to zero per instance and never mix instances, and the gradient after backward equals the gradient of the reference surrogate. Epoch ends may be fit boundaries: the last epoch of a fit (trainer.max_epochs = epoch + 1) followed by setup() of the next fit on the same module.",
        note="Trainer replaced by shims (log, optimizers, manual_backward, clip_gradients); tiny AM on tsp/cvrp. Gradient tolerance relative 1e-4 plus a conditioning floor when advantages cancel. SymNCO's invariance loss term is taken as reported.",
        tech="deterministic simulation: seeded training histories with trainer shims + float64 reference surrogates and autograd comparison"),
    "C17": dict(
        cat="exploration", ref="5/C17",
        text="Operation sequences against a reference list of instance fingerprints: the three dataset classes (+ExtraKeyDataset via add_key) over fields of mixed dtype (float16/32/64, int32/64, uint8, bool) and float32/float64/int64 extra keys, eight loader modes (unshuffled, seeded/global shuffle, explicit sampler, _dataloader_single, _dataloader, dict of datasets), batch sizes dividing or not, several epochs; and real REINFORCE and MDAM modules with rollout / warm-up baselines (handed over by name or as objects) through setup, train_dataloader, on_train_epoch_end regeneration and re-wrapping: unshuffled reads reproduce order, values, dtypes, shapes and the partial batch; shuffled reads are permutations with fields kept together; the extra travelling with an instance equals the baseline policy's solo greedy reward on it (a value that differs must at least be the inference-mode value of its evaluation batch; eval()/train() flips between epochs are injected).",
        note="num_workers=0 only; training replaced by seeded parameter noise.",
        tech="deterministic simulation: seeded operation sequences against a reference fingerprint list"),
    "C18": dict(
        cat="exploration", ref="5/C18",
        text="21 generators x scheduled parameterisations (sizes incl. off-table, location distributions, capacity overrides, all MTVRP presets, scheduling shapes, CVRPTW scale, OP prize types, small MCP) x seeds under a clean RNG and under the extreme-draw seam (entries of torch.rand/uniform_/randint/randperm/normal moved to the ends of their support, no manufactured ties): no exception, documented keys/shapes/dtypes/ranges/structure (time-window reachability and return slack, triangle inequality, eligibility, preset flags), and solvable: a mask-confined episode from every generated batch completes.",
        note="Range clauses are pure functions of the draw (thin); the seam reaches rare generator paths. What only the ties sub-mode triggers is an observation, not a violation. DPP/MDPP with stub data.",
        tech="deterministic simulation: seeded generator runs with RNG fault injection (extreme-draw buggify) + solvability episodes"),
    "C19": dict(
        cat="exploration", ref="5/C19",
        text="Operation sequences with crash points: npz save (plain/compressed, SimFile or path) -> crash -> load; generate_dataset / generator files (explicit names with dots, file lists in non-alphabetical order, files already read once through the same environment, MTVRP with unscaled demands) -> env.load_data / env.dataset(phase) -> episodes compared with the directly fed instance; FJSP/JSSP text directories under shuffled os.listdir -> file generators (also after earlier requests served by the same generator); env deepcopy/pickle at scheduled ticks mid-episode on all 21 constructive envs (masks, reward, RNG state); Trainer.fit of tiny REINFORCE models with every checkpointable baseline, and of POMO built around a policy object -> save_checkpoint -> crash -> load_from_checkpoint (path and file object, load_baseline on/off): restored policy and rollout-baseline policy give identical greedy actions and rewards, POMO also under the model's own test-phase (multi-start) decoding.",
        note="Checkpoints restored in the same process (crash = drop objects + gc). Storage faults (short/torn/bit-flipped files) run in observational mode only (the property speaks of completed writes).",
        tech="deterministic simulation: seeded operation/crash sequences over in-memory and temp-dir storage with restore-equivalence oracle"),
    "C20": dict(
        cat="exploration", ref="5/C20",
        text="Operation sequences against float64 references: RewardScaler (None/int/norm/scale) fed float32 (a fifth of the runs: float64) batches of scheduled sizes 1-64, magnitudes 1e-3..1e3, constant and offset histories, interleaved __call__/update (count exact, mean and variance vs two-pass statistics, output = stated transformation); ExponentialBaseline recurrence (also via the registry); WarmupBaseline (built directly, through the registry's 'warmup' entry around a given inner baseline, and through the default 'rollout' entry with n_epochs / exp_beta) with consecutive/repeated/restarted/skipped epoch callbacks (alpha schedule, value = alpha*inner + (1-alpha)*EMA, loss mix).",
        note="The closed forms are pure functions of the history; the history (order and sizes of observed batches, epoch callbacks) is what the simulator schedules. Statistics are held to the history's precision; the scaled output is float32-accurate by the library's design.",
        tech="deterministic simulation: seeded streaming histories against float64 reference state machines"),
    "C04": dict(
        cat="exploration", ref="5/C04",
        text="Seeded search over batch compositions, action schedules and perturbations: each instance is driven solo and inside scheduled batches (copies, strangers, other sizes/positions) with stalls of finished rows, mid-episode reindex/replicate, snapshot/restore and alternate episodes on the same env object; masks, finishing tick and reward must coincide. Sampled, not exhaustive.",
        note="Trusted: torch CPU kernels, the harness' bookkeeping of row identity through reindexing. Instances from the library's generators (small sizes dominate). EDA data files are stubs.",
        tech="deterministic simulation: seeded lock-step scheduler + solo-vs-batched history check"),
}

NOT_YET = {}
for i in range(1, 21):
    pid = f"C{i:02d}"
    if pid not in CHECKS:
        NOT_YET[pid] = "check under construction in this session (planned in DESIGN.md section 5); not claimed until its machinery is committed"

def main():
    checks = []
    for pid, c in sorted(CHECKS.items()):
        checks.append({
            "property_id": pid,
            "quick_cmd": f"./check {pid} --tier quick",
            "thorough_cmd": f"./check {pid} --tier thorough",
            "evidence_file": f"evidence/{pid}.json",
            "replay_cmd_template": f"./check {pid} --replay {{path}}",
            "engine": "rlsim",
            "level_claimed": {"category": c["cat"], "text": c["text"], "design_ref": c["ref"]},
            "level_note": c["note"],
            "technique": c["tech"],
        })
    man = {
        "version": 1,
        "setup_cmd": "/venv/bin/python -m compileall -q rlsim && ./check selftest",
        "hooks": {
            "guard": "RL4CO_VERIF",
            "enable": "no in-repo hooks: every seam is installed from /verif by monkeypatching at run time",
            "baseline_off_cmd": "cd /repo && /venv/bin/python -m pytest -ra -q -p no:cacheprovider --timeout=900 --continue-on-collection-errors",
            "source_commits": [],
            "add_only": True,
        },
        "engines": [{"name": "rlsim", "path": "rlsim/", "serves_properties": sorted(CHECKS),
                     "kind_free_text": "deterministic simulator: seeded scheduler over real rl4co code, reference models, replay + minimisation"}],
        "checks": checks,
        "not_applicable": [{"property_id": k, "reason": v} for k, v in sorted(NOT_YET.items())],
        "notes": "See DESIGN.md. ./check Cxx --tier quick|thorough [--runs N] [--budget S] [--replay FILE]; VERIF_SEED, VERIF_TIER, VERIF_BUDGET_S honoured.",
    }
    with open(os.path.join(HERE, "MANIFEST.json"), "w") as f:
        json.dump(man, f, indent=1)

if __name__ == "__main__":
    main()
