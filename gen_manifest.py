#!/usr/bin/env python3
"""Regenerates MANIFEST.json from the table below (kept as code so that it stays valid)."""
import json, os
HERE = os.path.dirname(os.path.abspath(__file__))

CHECKS = {
    "C04": dict(
        cat="exploration", ref="5/C04",
        text="Seeded search over batch compositions, action schedules and perturbations: each instance is driven solo and inside scheduled batches (copies, strangers, other sizes/positions) with stalls of finished rows, mid-episode reindex/replicate, snapshot/restore and alternate episodes on the same env object; masks, finishing tick and reward must coincide. Sampled, not exhaustive.",
        note="Trusted: torch CPU kernels, the harness' bookkeeping of row identity through reindexing. Instances from the library's generators (small sizes dominate). EDA data files are stubs.",
        tech="deterministic simulation: seeded lock-step scheduler + solo-vs-batched history check"),
}

NOT_YET = {}
for i in range(1, 21):
    pid = f"C{i:02d}"
    if pid not in CHECKS:
        NOT_YET[pid] = "check under construction in this session (planned in DESIGN.md section 5); not claimed until its machinery is committed"

def main():
    checks = []
    for pid, c in sorted(CHECKS.items()):
        checks.append({
            "property_id": pid,
            "quick_cmd": f"./check {pid} --tier quick",
            "thorough_cmd": f"./check {pid} --tier thorough",
            "evidence_file": f"evidence/{pid}.json",
            "replay_cmd_template": f"./check {pid} --replay {{path}}",
            "engine": "rlsim",
            "level_claimed": {"category": c["cat"], "text": c["text"], "design_ref": c["ref"]},
            "level_note": c["note"],
            "technique": c["tech"],
        })
    man = {
        "version": 1,
        "setup_cmd": "/venv/bin/python -m compileall -q rlsim && ./check selftest",
        "hooks": {
            "guard": "RL4CO_VERIF",
            "enable": "no in-repo hooks: every seam is installed from /verif by monkeypatching at run time",
            "baseline_off_cmd": "cd /repo && /venv/bin/python -m pytest -ra -q -p no:cacheprovider --timeout=900 --continue-on-collection-errors",
            "source_commits": [],
            "add_only": True,
        },
        "engines": [{"name": "rlsim", "path": "rlsim/", "serves_properties": sorted(CHECKS),
                     "kind_free_text": "deterministic simulator: seeded scheduler over real rl4co code, reference models, replay + minimisation"}],
        "checks": checks,
        "not_applicable": [{"property_id": k, "reason": v} for k, v in sorted(NOT_YET.items())],
        "notes": "See DESIGN.md. ./check Cxx --tier quick|thorough [--runs N] [--budget S] [--replay FILE]; VERIF_SEED, VERIF_TIER, VERIF_BUDGET_S honoured.",
    }
    with open(os.path.join(HERE, "MANIFEST.json"), "w") as f:
        json.dump(man, f, indent=1)

if __name__ == "__main__":
    main()
