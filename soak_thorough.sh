#!/bin/bash
# thorough-tier sweep: ./soak_thorough.sh <seed> <budget> <workers> checks...
seed=$1; budget=$2; workers=$3; shift 3
for c in "$@"; do
  out=$(RLSIM_NO_EVIDENCE=1 ./check $c --tier thorough --seed $seed --budget $budget --workers $workers --det 8 2>&1); rc=$?
  echo "rc=$rc $(echo "$out" | grep -E "tier=" | tail -1)"
  if [ $rc -ne 0 ]; then echo "$out" | grep -E "^violation|^VIOLATION|HARNESS|Error" | cut -c1-400 | head -12; fi
done
